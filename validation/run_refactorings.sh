#!/bin/bash
# run_refactorings.sh [--tier quick|thorough] [id...] : apply each behaviour-preserving refactoring of /verif/refactorings/<id>/patch.diff
# to /repo, run EVERY claimed check, undo. A refactoring must leave every check silent (exit 0): anything else is a false alarm.
set -u
VERIF="$(cd "$(dirname "$0")/.." && pwd)"
# VALIDATION_REPO: a scratch git worktree of /repo to work in instead of /repo itself (so that several shards can run side by side)
REPO="${VALIDATION_REPO:-/repo}"; [ "$REPO" != /repo ] && export HRSIM_REPO="$REPO"
TIER=quick
if [ "${1:-}" = "--tier" ]; then TIER="$2"; shift 2; fi
ids=("$@"); [ ${#ids[@]} -eq 0 ] && ids=($(ls "$VERIF/refactorings"))
[ -z "$(git -C "$REPO" status --porcelain)" ] || { echo "$REPO is not clean" >&2; exit 2; }
for id in "${ids[@]}"; do
  d="$VERIF/refactorings/$id"
  git -C "$REPO" apply "$d/patch.diff" 2>/dev/null || { echo "$id: patch does not apply"; continue; }
  if ! ( cd "$REPO" && go test -count=1 ./... >/dev/null 2>&1 && cd cmd/hranoprovod-cli && go test -count=1 ./... >/dev/null 2>&1 ); then echo "$id: suite fails"; fi
  res=""
  # VALIDATION_CHECKS: a subset of the claimed checks (default: all of them)
  for chk in ${VALIDATION_CHECKS:-$(jq -r '.checks[].property_id' "$VERIF/MANIFEST.json")}; do
    out=$("$VERIF/check" "$chk" --tier "$TIER" 2>&1); rc=$?
    if [ $rc -eq 0 ]; then res="$res $chk:ok"; else res="$res $chk:rc=$rc"; echo "$out" | grep -E '^hrsim: C[0-9]+ [a-z]|VIOLATION|hrsim-build|rror' | head -5 | cut -c1-300; fi
  done
  echo "$id:$res"
  git -C "$REPO" apply -R "$d/patch.diff"; git -C "$REPO" clean -fdq >/dev/null 2>&1
  git -C "$REPO" status --porcelain | grep -q . && { echo "could not undo $id" >&2; git -C "$REPO" status --short; exit 2; }
done
