#!/bin/bash
# run_refactorings.sh [--tier quick|thorough] [id...] : apply each behaviour-preserving refactoring of /verif/refactorings/<id>/patch.diff
# to /repo, run EVERY claimed check, undo. A refactoring must leave every check silent (exit 0): anything else is a false alarm.
set -u
VERIF="$(cd "$(dirname "$0")/.." && pwd)"
TIER=quick
if [ "${1:-}" = "--tier" ]; then TIER="$2"; shift 2; fi
ids=("$@"); [ ${#ids[@]} -eq 0 ] && ids=($(ls "$VERIF/refactorings"))
[ -z "$(git -C /repo status --porcelain)" ] || { echo "/repo is not clean" >&2; exit 2; }
for id in "${ids[@]}"; do
  d="$VERIF/refactorings/$id"
  git -C /repo apply "$d/patch.diff" 2>/dev/null || { echo "$id: patch does not apply"; continue; }
  if ! ( cd /repo && go test -count=1 ./... >/dev/null 2>&1 && cd cmd/hranoprovod-cli && go test -count=1 ./... >/dev/null 2>&1 ); then echo "$id: suite fails"; fi
  res=""
  for chk in $(jq -r '.checks[].property_id' "$VERIF/MANIFEST.json"); do
    out=$("$VERIF/check" "$chk" --tier "$TIER" 2>&1); rc=$?
    if [ $rc -eq 0 ]; then res="$res $chk:ok"; else res="$res $chk:rc=$rc"; echo "$out" | grep -E '^hrsim: C[0-9]+ [a-z]|VIOLATION|hrsim-build|rror' | head -5 | cut -c1-300; fi
  done
  echo "$id:$res"
  git -C /repo apply -R "$d/patch.diff"; git -C /repo clean -fdq >/dev/null 2>&1
  git -C /repo status --porcelain | grep -q . && { echo "could not undo $id" >&2; git -C /repo status --short; exit 2; }
done
