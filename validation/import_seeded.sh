#!/bin/bash
# import_seeded.sh ID SRCDIR PROPERTY CHECKS_JSON NEEDS  MODE...
#   MODE = gotest FILE DESTDIR RUNREGEX [EXTRA_GO_TEST_ARGS...]   (DESTDIR relative to the worktree; module dir is derived)
#        | sh SCRIPT [ARGS...]                                    (@WT@ in ARGS is replaced by the scratch worktree)
# Confirms in a scratch worktree of /repo HEAD that the change (a) applies, (b) passes the unedited suite,
# (c) fails its demonstration, and that the demonstration passes without it; then files it under /verif/seeded/ID.
set -u
ID="$1"; SRC="$2"; PROP="$3"; CHECKS="$4"; NEEDS="$5"; MODE="$6"; shift 6
VERIF="$(cd "$(dirname "$0")/.." && pwd)"
WT=/tmp/ver/$ID
rm -rf "$WT"; git -C /repo worktree prune; git -C /repo worktree add -q --detach "$WT" HEAD || exit 2
trap 'git -C /repo worktree remove --force "$WT" 2>/dev/null; rm -rf "$WT"' EXIT
suite() { ( cd "$WT" && go test -count=1 ./... >/dev/null 2>&1 && cd cmd/hranoprovod-cli && go test -count=1 ./... >/dev/null 2>&1 ); }
demo() {
  case "$MODE" in
    gotest)
      file="$1"; dest="$2"; re="$3"; shift 3
      tgt="$WT/$dest/zz_seeded_demo_test.go"; cp "$SRC/$file" "$tgt"
      moddir="$WT"; case "$dest" in cmd/hranoprovod-cli*) moddir="$WT/cmd/hranoprovod-cli";; esac
      pkg="./${dest#cmd/hranoprovod-cli}"; pkg="${pkg%/}"; [ "$pkg" = "./" ] && pkg="."; pkg="${pkg/.\/\//./}"
      ( cd "$moddir" && go test -count=1 -run "$re" "$@" "$pkg" ) >"$WT/.demo.log" 2>&1; rc=$?
      rm -f "$tgt"; return $rc;;
    sh)
      script="$1"; shift
      args=(); for a in "$@"; do args+=("${a//@WT@/$WT}"); done
      ( cd "$WT" && sh "$SRC/$script" "${args[@]}" ) >"$WT/.demo.log" 2>&1;;
  esac
}
git -C "$WT" apply "$SRC/patch.diff" || { echo "$ID: patch does not apply"; exit 1; }
if ! suite; then echo "$ID: REJECTED - the existing suite fails with the change"; exit 1; fi
if demo "$@"; then echo "$ID: REJECTED - the demonstration passes WITH the change"; tail -5 "$WT/.demo.log"; exit 1; fi
with_tail=$(tail -4 "$WT/.demo.log" | cut -c1-200)
git -C "$WT" apply -R "$SRC/patch.diff"
if ! demo "$@"; then echo "$ID: REJECTED - the demonstration fails WITHOUT the change"; tail -8 "$WT/.demo.log"; exit 1; fi
D="$VERIF/seeded/$ID"; rm -rf "$D"; mkdir -p "$D/demo"
cp "$SRC/patch.diff" "$D/patch.diff"
for f in "$SRC"/*; do case "$(basename "$f")" in patch.diff|hr|hr-mutant) ;; *) cp -r "$f" "$D/demo/";; esac; done
find "$D/demo" -name '*_test.go' -exec sh -c 'mv "$1" "$1.txt"' _ {} \;
jq -n --arg id "$ID" --arg prop "$PROP" --argjson checks "$CHECKS" --arg needs "$NEEDS" --arg mode "$MODE $*" --arg with "$with_tail" \
  '{id:$id, origin:"written by an independent sub-agent that saw only the text of the property and a scratch worktree", property:$prop, checks:$checks, needs_to_manifest:$needs,
    demonstration:("demo/ (see demo/NOTES.md); run as: " + $mode), verified:{ "patch applies to /repo HEAD": true, "unedited suite passes with the change": true, "demonstration fails with the change": $with, "demonstration passes without the change": true}}' > "$D/meta.json"
echo "$ID: accepted"
