#!/bin/bash
# run_seeded.sh [--tier quick|thorough] [id...] : apply each seeded change of /verif/seeded/<id>/patch.diff to /repo,
# run the checks named in its meta.json ("checks"), undo the change, and print one line per (change, check).
# A seeded change is "caught" when the check exits 1 with a VIOLATION line.
set -u
VERIF="$(cd "$(dirname "$0")/.." && pwd)"
# VALIDATION_REPO: a scratch git worktree of /repo to work in instead of /repo itself (so that several shards can run side by side)
REPO="${VALIDATION_REPO:-/repo}"; [ "$REPO" != /repo ] && export HRSIM_REPO="$REPO"
TIER=quick
if [ "${1:-}" = "--tier" ]; then TIER="$2"; shift 2; fi
ids=("$@")
[ ${#ids[@]} -eq 0 ] && ids=($(ls "$VERIF/seeded"))
if [ -n "$(git -C "$REPO" status --porcelain)" ]; then echo "run_seeded: $REPO is not clean" >&2; exit 2; fi
for id in "${ids[@]}"; do
  d="$VERIF/seeded/$id"
  [ -f "$d/patch.diff" ] || continue
  if ! git -C "$REPO" apply "$d/patch.diff" 2>/dev/null; then echo "$id: patch does not apply"; continue; fi
  for chk in $(jq -r '.checks[]' "$d/meta.json"); do
    out=$("$VERIF/check" "$chk" --tier "$TIER" 2>&1); rc=$?
    sig=$(echo "$out" | grep -m1 -E '^hrsim: C[0-9]+ [a-z]' | cut -c8-160)
    case $rc in
      1) verdict=CAUGHT;;
      0) verdict=MISSED;;
      *) verdict="ERROR(rc=$rc)";;
    esac
    echo "$id $chk $verdict :: $sig"
  done
  git -C "$REPO" apply -R "$d/patch.diff"
  git -C "$REPO" status --porcelain | grep -q . && { echo "run_seeded: could not undo $id" >&2; exit 2; }
done
