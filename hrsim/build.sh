#!/bin/bash
# build.sh SCRATCH : copy /repo's current working tree to SCRATCH/repo, instrument it,
# and build SCRATCH/bin/hrsim.test (the simulator worker) from it. Exit 2 on any trouble.
set -u
S="$1"
VERIF="$(cd "$(dirname "$0")/.." && pwd)"
REPO="${HRSIM_REPO:-/repo}"
export GOFLAGS=-mod=mod GOPROXY=off GOSUMDB=off GOTOOLCHAIN=local GOWORK=off CGO_ENABLED=0
export PATH=/opt/veriftools/go1.26.8/bin:$PATH
fail() { echo "hrsim-build: $*" >&2; exit 2; }

mkdir -p "$S/bin" || fail "mkdir"
rsync -a --delete --exclude .git "$REPO"/ "$S/repo/" || fail "rsync"
rm -f "$S/repo/go.work" "$S/repo/go.work.sum"
( cd "$S/repo/cmd/hranoprovod-cli" && go mod edit -replace github.com/aquilax/hranoprovod-cli/v3=../../ ) || fail "go mod edit"

# package main under another name, so that the harness (a separate module with a
# modern language version) can call the unmodified GetApp()
mkdir -p "$S/repo/cmd/hranoprovod-cli/hrapp"
for f in "$S"/repo/cmd/hranoprovod-cli/*.go; do
  case "$f" in *_test.go) continue;; esac
  sed -e 's/^package main$/package hrapp/' -e 's/^func main()/func Main()/' "$f" > "$S/repo/cmd/hranoprovod-cli/hrapp/$(basename "$f")"
done
rm -rf "$S/repo/verifsim"; cp -r "$VERIF/hrsim/verifsim" "$S/repo/verifsim" || fail "copy verifsim"

# instrumenter (cached by the go build cache)
( cd "$VERIF/hrsim/instrument" && go build -o "$S/bin/instrument" . ) || fail "cannot build the instrumenter"
"$S/bin/instrument" -root "$S/repo" -report "$S/instrument.json" "$S/repo" "$S/repo/cmd/hranoprovod-cli" || fail "instrumentation failed"

rm -rf "$S/harness"; mkdir -p "$S/harness"
cp "$VERIF"/hrsim/harness/*.go "$VERIF"/hrsim/harness/go.mod "$S/harness/" || fail "copy harness"
cat "$VERIF/hrsim/harness/go.sum" "$S/repo/go.sum" "$S/repo/cmd/hranoprovod-cli/go.sum" 2>/dev/null | sort -u > "$S/harness/go.sum"
( cd "$S/harness" && go test -c -o "$S/bin/hrsim.test" . ) || fail "cannot build the harness against the instrumented tree"
echo "hrsim-build: ok $(jq -c .counts "$S/instrument.json")"
