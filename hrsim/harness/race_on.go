//go:build race

package harness

// raceBuild: this binary was built with -race (odd-numbered workers of C01, C11 and C18).
const raceBuild = true
