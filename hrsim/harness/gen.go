package harness

import (
	"fmt"
	"strings"
	"time"

	"pgregory.net/rapid"
)

// Item is one entry line: a name and the text of its number.
type Item struct {
	Name string `json:"n"`
	Qty  string `json:"q"`
}

// Block is a heading with its entries: a recipe of the book or a day of the log.
type Block struct {
	Head  string   `json:"h"`
	Items []Item   `json:"i"`
	Notes []string `json:"notes,omitempty"`
	// PadAfter: that many bytes of comment lines follow the block (files larger than the 64 KiB the
	// line scanner buffers at most, without changing what the file means)
	PadAfter int `json:"pad_after,omitempty"`
}

// Layout is one of the documented ways of writing the same file.
type Layout struct {
	Indent   string `json:"indent"`
	Sep      string `json:"sep"`
	EOL      string `json:"eol"`
	Comments bool   `json:"comments,omitempty"`
	Blank    bool   `json:"blank,omitempty"`
	Quoted   bool   `json:"quoted,omitempty"`
	// Preamble: lines before the first heading that mean nothing to the parser (an indented editor
	// modeline, a YAML document start, an entry that belongs to no record)
	Preamble string `json:"preamble,omitempty"`
}

// deepName has 40 category levels (the balance tree indents one step per level).
var deepName = strings.TrimSuffix(strings.Repeat("lv/", 40), "/")

var plainLayout = Layout{Indent: "  ", Sep: ": ", EOL: "\n"}

func render(blocks []Block, ly Layout) string {
	var b strings.Builder
	if ly.Preamble != "" {
		b.WriteString(ly.Preamble + ly.EOL)
	}
	if ly.Comments {
		b.WriteString("# generated file" + ly.EOL)
	}
	for i, bl := range blocks {
		b.WriteString(bl.Head + ":" + ly.EOL)
		for _, n := range bl.Notes {
			b.WriteString(ly.Indent + "# " + n + ly.EOL)
		}
		for j, it := range bl.Items {
			name := it.Name
			if ly.Quoted {
				name = `"` + name + `"`
			}
			b.WriteString(ly.Indent + name + ly.Sep + it.Qty + ly.EOL)
			if ly.Comments && j == 0 && i%2 == 1 {
				b.WriteString("# a comment in the middle" + ly.EOL)
			}
		}
		if ly.Blank || i%3 == 0 {
			b.WriteString(ly.EOL)
		}
		for n := 0; n < bl.PadAfter; n += 1000 {
			b.WriteString("# " + strings.Repeat("p", 997) + ly.EOL)
		}
	}
	return b.String()
}

func genLayout(t *rapid.T, label string) Layout {
	if !rapid.Bool().Draw(t, label+"_varied") {
		return plainLayout
	}
	return Layout{
		Indent:   rapid.SampledFrom([]string{"  ", "\t", "  - ", "    ", " "}).Draw(t, label+"_indent"),
		Sep:      rapid.SampledFrom([]string{": ", " ", ":\t", ":  "}).Draw(t, label+"_sep"),
		EOL:      rapid.SampledFrom([]string{"\n", "\r\n"}).Draw(t, label+"_eol"),
		Comments: rapid.Bool().Draw(t, label+"_comments"),
		Blank:    rapid.Bool().Draw(t, label+"_blank"),
		Quoted:   rapid.Bool().Draw(t, label+"_quoted"),
		Preamble: rapid.SampledFrom([]string{"", "", "\t# vim: set ft=yaml:", "--- # hranoprovod", "  orphan/entry: 1", "-"}).Draw(t, label+"_preamble"),
	}
}

var (
	elementPool = []string{"kcal", "fat", "prot", "carb", "salt", "вода", "糖", "vit c", "fibre/sol", "Kcal", "FAT", "Вода"}
	recipePool  = []string{"bread/rye", "bread/white", "egg/boiled", "soup/veg", "soup/meat", "mix", "mix/a b", "сандвич/яйце", "r/1", "r/2", "r/3", "z/last", "a/first", "dish/x/100g", "dish/y/100g", "pie", "Mix", "MIX", "Pie", "R/1"}
	foreignPool = []string{"coffee/cup", "tea", "candy/bar", "water/0.5l", "ядки", "Tea", "Coffee/cup", deepName, "mIx", "pIE", "BREAD/RYE"}
	exactQty    = []string{"1", "2", "3", "0.5", "0.25", "1.5", "-1", "-2", "0", "10", "100", "-0.75", "4", "8"}
	decimalQty  = []string{"0.2", "3.3", "1.1", "-0.1", "259", "0.40", "13.6", "4.29", "1e2", "-7.5", "0.07"}
)

// boundaryLog x boundaryBook products have a 5 in the third decimal, so sums of an odd number of them
// lie on a half-cent boundary of the two-decimal reports: the printed digit then depends on the last
// bit of the float sum, i.e. on the order of the additions.
var (
	boundaryLog  = []string{"0.9", "1.7", "0.1", "0.3", "0.7", "1.1", "1.3"}
	boundaryBook = []string{"0.05", "0.15", "0.25", "0.35", "0.45", "0.005", "0.015"}
)

// extremeQty: everything strconv.ParseFloat accepts that ordinary files never contain.
// scaleQty: coefficients many orders of magnitude apart (a tiny amount of something very concentrated)
var scaleQty = []string{"1e-15", "1e15", "1e-13", "1e13", "2", "0.5", "4e-14", "25e12"}

var extremeQty = []string{"NaN", "1e308", "-1e308", "Inf", "-Inf", "1e-320", "-0", "9007199254740993", "1e22", "0.000001"}

func genQty(t *rapid.T, label string, exactOnly bool) string {
	if exactOnly || rapid.IntRange(0, 3).Draw(t, label+"_kind") < 3 {
		return rapid.SampledFrom(exactQty).Draw(t, label)
	}
	return rapid.SampledFrom(decimalQty).Draw(t, label)
}

// BookOpts steers the recipe-book generator (swarm style: features are switched per case).
type BookOpts struct {
	MaxRecipes int
	MinRecipes int // (books of 16 recipes and more: a resolver that splits its work only does so on those)
	Cycles     bool
	ExactOnly  bool
	DeepChain  int  // if > 0, force a chain with this many references
	Boundary   bool // coefficients from boundaryBook
	Extreme    bool // coefficients from extremeQty
	Scales     bool // coefficients from scaleQty
}

// genBook draws a recipe book. Recipes are created in a hidden topological
// order (so that, without Cycles, the book is acyclic) and then declared in a
// drawn permutation: forward and backward references both occur.
func genBook(t *rapid.T, o BookOpts) []Block {
	n := rapid.IntRange(o.MinRecipes, o.MaxRecipes).Draw(t, "n_recipes")
	if o.DeepChain > 0 && n < o.DeepChain {
		n = o.DeepChain
	}
	pool := recipePool
	if o.MaxRecipes > len(recipePool) {
		pool = append([]string{}, recipePool...)
		for i := 0; len(pool) < o.MaxRecipes; i++ {
			pool = append(pool, fmt.Sprintf("w/%02d", i))
		}
	}
	names := rapid.Permutation(pool).Draw(t, "recipe_names")
	if n > len(names) {
		n = len(names)
	}
	names = names[:n]
	book := make([]Block, n)
	for i := 0; i < n; i++ {
		book[i].Head = names[i]
		k := rapid.IntRange(0, 4).Draw(t, fmt.Sprintf("r%d_items", i))
		if o.DeepChain > 0 && i < o.DeepChain-1 {
			// reference i -> i+1 guarantees the chain
			book[i].Items = append(book[i].Items, Item{names[i+1], genQty(t, fmt.Sprintf("r%d_chainq", i), o.ExactOnly)})
		}
		for j := 0; j < k; j++ {
			label := fmt.Sprintf("r%d_i%d", i, j)
			var name string
			switch c := rapid.IntRange(0, 9).Draw(t, label+"_ref"); {
			case c >= 4 && c < 8 && i+1 < n:
				name = names[rapid.IntRange(i+1, n-1).Draw(t, label+"_fwd")]
			case c == 8 && o.Cycles && n > 0:
				name = names[rapid.IntRange(0, n-1).Draw(t, label+"_any")]
			case c == 9:
				name = rapid.SampledFrom(foreignPool).Draw(t, label+"_foreign")
			default:
				name = rapid.SampledFrom(elementPool).Draw(t, label+"_el")
			}
			q := genQty(t, label+"_q", o.ExactOnly)
			if o.Boundary {
				q = rapid.SampledFrom(boundaryBook).Draw(t, label+"_bq")
			}
			if o.Extreme && rapid.Bool().Draw(t, label+"_x") {
				q = rapid.SampledFrom(extremeQty).Draw(t, label+"_xq")
			}
			if o.Scales {
				q = rapid.SampledFrom(scaleQty).Draw(t, label+"_sq")
			}
			book[i].Items = append(book[i].Items, Item{name, q})
		}
		if rapid.IntRange(0, 5).Draw(t, fmt.Sprintf("r%d_note", i)) == 5 {
			book[i].Notes = []string{"barcode: 000" + fmt.Sprint(i)}
		}
	}
	if n > 1 {
		order := rapid.Permutation(seq(n)).Draw(t, "declaration_order")
		out := make([]Block, n)
		for i, j := range order {
			out[i] = book[j]
		}
		book = out
	}
	return book
}

func seq(n int) []int {
	s := make([]int, n)
	for i := range s {
		s[i] = i
	}
	return s
}

var baseDay = time.Date(2021, 1, 20, 0, 0, 0, 0, time.UTC)

const defaultDateLayout = "2006/01/02"

// LogOpts steers the log generator.
type LogOpts struct {
	MaxDays   int
	MinDays   int
	Window    int // dates are baseDay + [0, Window)
	Layout    string
	ExactOnly bool
	Sorted    bool
	Base      time.Time // first day of the window (zero: baseDay)
	Boundary  bool      // quantities from boundaryLog
	Extreme   bool      // quantities from extremeQty
	LongDays  bool      // one or two days of 33..80 lines (with repeats, also of the line just before)
	Pad       bool      // 2 x 40000 bytes of comment lines after blocks
	// Chrono: 35..80 day blocks in chronological order (as a diary is written), then one to three back-filled earlier days
	Chrono bool
}

// genLog draws a log: day blocks in any order, repeated dates, empty days,
// repeated foods within a day, foods from the book, foreign foods and
// directly logged elements.
func genLog(t *rapid.T, book []Block, o LogOpts) []Block {
	if o.Layout == "" {
		o.Layout = defaultDateLayout
	}
	if o.Window <= 0 {
		o.Window = 10
	}
	if o.Base.IsZero() {
		o.Base = baseDay
	}
	n := rapid.IntRange(o.MinDays, o.MaxDays).Draw(t, "n_days")
	backfill := 0
	if o.Chrono {
		n = rapid.IntRange(35, 80).Draw(t, "n_days_chrono")
		backfill = rapid.IntRange(1, 3).Draw(t, "n_backfill")
		n += backfill
	}
	days := make([]Block, n)
	var foods []string
	for _, r := range book {
		foods = append(foods, r.Head)
	}
	for i := 0; i < n; i++ {
		off := rapid.IntRange(0, o.Window-1).Draw(t, fmt.Sprintf("d%d_off", i))
		if o.Sorted {
			off = i * o.Window / (n + 1)
		}
		if o.Chrono && i < n-backfill {
			off = i * o.Window / (n - backfill) // ascending, several blocks per date
		}
		days[i].Head = o.Base.AddDate(0, 0, off).Format(o.Layout)
		k := rapid.IntRange(0, 5).Draw(t, fmt.Sprintf("d%d_items", i))
		for j := 0; j < k; j++ {
			label := fmt.Sprintf("d%d_i%d", i, j)
			var name string
			switch c := rapid.IntRange(0, 9).Draw(t, label+"_kind"); {
			case c < 5 && len(foods) > 0:
				name = rapid.SampledFrom(foods).Draw(t, label+"_food")
			case c < 7:
				name = rapid.SampledFrom(foreignPool).Draw(t, label+"_foreign")
			case c == 7 && j > 0:
				name = days[i].Items[rapid.IntRange(0, j-1).Draw(t, label+"_dup")].Name
			default:
				name = rapid.SampledFrom(elementPool).Draw(t, label+"_el")
			}
			q := genQty(t, label+"_q", o.ExactOnly)
			if o.Boundary {
				q = rapid.SampledFrom(boundaryLog).Draw(t, label+"_bq")
			}
			if o.Extreme && rapid.Bool().Draw(t, label+"_x") {
				q = rapid.SampledFrom(extremeQty).Draw(t, label+"_xq")
			}
			days[i].Items = append(days[i].Items, Item{name, q})
		}
		if rapid.IntRange(0, 5).Draw(t, fmt.Sprintf("d%d_note", i)) == 5 {
			days[i].Notes = []string{"weight: 7" + fmt.Sprint(i), "felt fine"}
		}
	}
	if o.LongDays && n > 0 {
		pool := append(append([]string{}, foods...), foreignPool...)
		pool = append(pool, elementPool...)
		for i := 0; i < 60; i++ {
			pool = append(pool, fmt.Sprintf("snack/%02d", i))
		}
		for k := 0; k < 2; k++ {
			d := rapid.IntRange(0, n-1).Draw(t, fmt.Sprintf("long_day%d", k))
			lines := rapid.IntRange(33, 80).Draw(t, fmt.Sprintf("long_day%d_lines", k))
			distinct := rapid.Bool().Draw(t, fmt.Sprintf("long_day%d_distinct", k)) // a long day in which no food is repeated
			used := map[string]bool{}
			for _, it := range days[d].Items {
				used[it.Name] = true
			}
			for len(days[d].Items) < lines {
				j := len(days[d].Items)
				name := rapid.SampledFrom(pool).Draw(t, fmt.Sprintf("ld%d_%d", k, j))
				if distinct {
					for tries := 0; used[name] && tries < len(pool); tries++ {
						name = pool[(tries*7+j)%len(pool)]
					}
					used[name] = true
				} else if j > 0 && rapid.IntRange(0, 3).Draw(t, fmt.Sprintf("ld%d_%d_rep", k, j)) == 3 {
					name = days[d].Items[j-1].Name // repeats the line just before
				}
				q := "1"
				if !o.ExactOnly {
					q = genQty(t, fmt.Sprintf("ld%d_%d_q", k, j), false)
				}
				days[d].Items = append(days[d].Items, Item{name, q})
			}
		}
	}
	if o.Pad && n > 0 {
		// two pads of 40000 bytes: the whole file exceeds 64 KiB although each half may not
		days[rapid.IntRange(0, n-1).Draw(t, "pad_after")].PadAfter = 40000
		days[rapid.IntRange(0, n-1).Draw(t, "pad_after2")].PadAfter += 40000
	}
	return days
}

// Shape is one way of invoking the program.
type Shape struct {
	Name     string   // stable name used in violation signatures
	Args     []string // command, sub-command, command flags; "@EL" "@DATE" "@FOOD" "@LOG" "@DB" are substituted
	ReadsLog bool
	ReadsDB  bool
	Period   bool // accepts -b/-e on the sub-command
	Resolves bool
	Report   bool // produces a report on stdout from the files
}

var shapes = []Shape{
	{"reg", []string{"reg"}, true, true, true, true, true},
	{"reg left-aligned", []string{"reg", "--internal-template-name=left-aligned"}, true, true, true, true, true},
	{"reg old", []string{"reg", "--use-old-reg-reporter"}, true, true, true, true, true},
	{"reg -s", []string{"reg", "-s", "@EL"}, true, true, true, true, true},
	{"reg -s -g", []string{"reg", "-s", "@EL", "-g"}, true, true, true, true, true},
	{"reg -s --csv", []string{"reg", "-s", "@EL", "--csv"}, true, true, true, true, true},
	{"reg -f", []string{"reg", "-f", "@FOOD"}, true, true, true, true, true},
	{"reg --no-totals", []string{"reg", "--no-totals"}, true, true, true, true, true},
	{"reg --totals-only", []string{"reg", "--totals-only"}, true, true, true, true, true},
	{"reg --shorten", []string{"reg", "--shorten"}, true, true, true, true, true},
	{"bal", []string{"bal"}, true, true, true, true, true},
	{"bal -c", []string{"bal", "-c"}, true, true, true, true, true},
	{"bal --collapse-last", []string{"bal", "--collapse-last"}, true, true, true, true, true},
	{"bal -s", []string{"bal", "-s", "@EL"}, true, true, true, true, true},
	{"bal -s -c", []string{"bal", "-s", "@EL", "-c"}, true, true, true, true, true},
	{"csv log", []string{"csv", "log"}, true, false, true, false, true},
	{"csv database", []string{"csv", "database"}, false, true, false, false, true},
	{"csv database-resolved", []string{"csv", "database-resolved"}, false, true, false, true, true},
	{"print", []string{"print"}, true, false, true, false, true},
	{"summary", []string{"summary", "@DATE"}, true, true, false, true, true},
	{"report totals", []string{"report", "totals"}, true, true, false, true, true},
	{"report quantity", []string{"report", "quantity"}, true, false, false, false, true},
	{"report quantity --desc", []string{"report", "quantity", "--desc"}, true, false, false, false, true},
	{"report unresolved", []string{"report", "unresolved"}, true, true, false, true, true},
	{"report element-total", []string{"report", "element-total", "@EL"}, false, true, false, true, true},
	{"report element-total --desc", []string{"report", "element-total", "--desc", "@EL"}, false, true, false, true, true},
	{"stats", []string{"stats"}, true, true, false, false, true},
	{"lint log", []string{"lint", "@LOG"}, true, false, false, false, true},
	{"lint -s log", []string{"lint", "-s", "@LOG"}, true, false, false, false, true},
	{"lint db", []string{"lint", "@DB"}, false, true, false, false, true},
	{"lint db log", []string{"lint", "@DB", "@LOG"}, false, true, false, false, true},
	{"gen man", []string{"gen", "man"}, false, false, false, false, false},
	{"gen markdown", []string{"gen", "markdown"}, false, false, false, false, false},
}

func shapeByName(name string) Shape {
	for _, s := range shapes {
		if s.Name == name {
			return s
		}
	}
	panic(harnessFault{"unknown shape " + name})
}

func shapeNames(filter func(Shape) bool) []string {
	var out []string
	for _, s := range shapes {
		if filter == nil || filter(s) {
			out = append(out, s.Name)
		}
	}
	return out
}

// Invocation is a reified command line.
type Invocation struct {
	Shape   string   `json:"shape"`
	Globals []string `json:"globals,omitempty"` // flags before the command
	Locals  []string `json:"locals,omitempty"`  // extra flags after the (sub-)command
	El      string   `json:"el,omitempty"`
	Food    string   `json:"food,omitempty"`
	Date    string   `json:"date,omitempty"`
	DB      string   `json:"db,omitempty"`
	Log     string   `json:"log,omitempty"`
	Long    bool     `json:"long,omitempty"` // spell commands and flags in their long forms (register, --single-element, --begin, ...)
}

var longForms = map[string]string{"reg": "register", "bal": "balance", "-s": "--single-element", "-f": "--single-food", "-g": "--group-food",
	"-c": "--collapse", "-b": "--begin", "-e": "--end", "-d": "--database", "-l": "--logfile"}

// Argv builds the argument vector.
func (iv Invocation) Argv() []string {
	sh := shapeByName(iv.Shape)
	db, lg := iv.DB, iv.Log
	if db == "" {
		db = "food.yaml"
	}
	if lg == "" {
		lg = "log.yaml"
	}
	argv := []string{"hranoprovod-cli"}
	argv = append(argv, iv.Globals...)
	// locals go right after the last word that is a (sub-)command, before positional arguments
	nCmd := 1
	if len(sh.Args) > 1 && !strings.HasPrefix(sh.Args[1], "-") && !strings.HasPrefix(sh.Args[1], "@") {
		nCmd = 2
	}
	for i, a := range sh.Args {
		if i == nCmd {
			argv = append(argv, iv.Locals...)
		}
		switch a {
		case "@EL":
			a = iv.El
		case "@FOOD":
			a = iv.Food
		case "@DATE":
			a = iv.Date
		case "@LOG":
			a = lg
		case "@DB":
			a = db
		}
		argv = append(argv, a)
	}
	if len(sh.Args) <= nCmd {
		argv = append(argv, iv.Locals...)
	}
	if iv.Long {
		for i := 1; i < len(argv); i++ {
			if l, ok := longForms[argv[i]]; ok && argv[i] != iv.El && argv[i] != iv.Food && argv[i] != iv.Date {
				argv[i] = l
			}
		}
	}
	return argv
}

// stdWorld puts book and log at the default names in the simulated cwd.
func stdWorld(bookText, logText string) World {
	w := noFaultWorld()
	w.Files = []FileSpec{
		{Path: "food.yaml", Kind: "file", Data: bookText, Plan: ReadPlan{FaultAt: -1}},
		{Path: "log.yaml", Kind: "file", Data: logText, Plan: ReadPlan{FaultAt: -1}},
	}
	return w
}
