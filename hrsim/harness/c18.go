package harness

import (
	"errors"
	"fmt"
	"io"
	"strings"
	"sync"
	"sync/atomic"
	"testing"
	"testing/synctest"
	"time"

	shared "github.com/aquilax/hranoprovod-cli/v3"
	"github.com/aquilax/hranoprovod-cli/v3/parser"
	"github.com/aquilax/hranoprovod-cli/v3/verifsim"
	"pgregory.net/rapid"
)

// curT is the *testing.T of the worker; synctest.Test needs one.
var curT *testing.T

// CaseC18 : the channel parser delivers the callback parser's result under
// every schedule. The producer is the real ParseStream / ParseFile running in
// its own goroutine inside a synctest bubble; the simulated reader stalls for
// seeded amounts of fake time and may fail; the consumer follows a policy and
// stalls too, so that who arrives first at each rendezvous is decided by the case.
type CaseC18 struct {
	Text        string  `json:"text"`
	Entry       string  `json:"entry"`  // "stream", "file", "file-missing", "file-eacces"
	Policy      string  `json:"policy"` // "documented" (return at first error or Done), "drain" (receive until Done)
	ReaderChunk int     `json:"reader_chunk"`
	ReaderStall []int64 `json:"reader_stall_units"` // fake-time sleep before the i-th read (cyclic), x1024 ns
	// Sched is the schedule: the consumer's goroutine doubles as a cooperative scheduler and reads
	// four numbers per step from this cyclic list (receive first or release first; in which order to
	// poll the three channels; which parked goroutine to release; whether the consumer is already
	// waiting in its select when that goroutine moves on).
	Sched []int `json:"sched"`
	// ConsStall: fake time the consumer spends on the i-th received event before it comes back
	// (cyclic, nanoseconds; odd values so that it never wakes at the same instant as a round timer
	// of the code under test). This is what lets timers inside the producer fire.
	ConsStall []int64 `json:"consumer_work_ns"`
	FaultAt   int     `json:"fault_at"` // read fault offset, -1 none
	// Comment is the comment character of the parser configuration ('#' documented default, ';', or 0 = none)
	Comment int `json:"comment_char"`
	// Second, if not empty, is parsed afterwards through the SAME Parser value (a Parser is reusable:
	// the repository's own benchmark does it); it is only run when the first stream was drained to completion.
	Second string `json:"second,omitempty"`
	// StatSizeZero: the file ParseFile opens reports size 0 (a FIFO, /dev/stdin behind a pipe): the stream still has all the bytes
	StatSizeZero bool `json:"stat_size_zero,omitempty"`
}

// stallReader is the simulated transport between file and producer.
type stallReader struct {
	data    string
	off     int
	chunk   int
	stalls  []int64
	reads   int
	faultAt int
}

var errInjectedRead = errors.New("hrsim: injected read failure")

func (r *stallReader) Read(p []byte) (int, error) {
	if len(r.stalls) > 0 {
		if d := r.stalls[r.reads%len(r.stalls)]; d > 0 {
			time.Sleep(time.Duration(d * 1024))
		}
	}
	r.reads++
	limit := len(r.data)
	if r.faultAt >= 0 && r.faultAt < limit {
		limit = r.faultAt
	}
	if r.off >= limit {
		if r.faultAt >= 0 && r.faultAt <= len(r.data) {
			return 0, errInjectedRead
		}
		return 0, io.EOF
	}
	n := len(p)
	if r.chunk > 0 && r.chunk < n {
		n = r.chunk
	}
	if r.off+n > limit {
		n = limit - r.off
	}
	copy(p, r.data[r.off:r.off+n])
	r.off += n
	return n, nil
}

func genC18(thorough bool) func(t *rapid.T) Case {
	return func(t *rapid.T) Case {
		c := &CaseC18{FaultAt: -1}
		book := genBook(t, BookOpts{MaxRecipes: 5})
		ly := genLayout(t, "layout")
		text := render(book, ly)
		// plant 0..3 malformed lines (several errors: only the first may be delivered)
		lines := strings.SplitAfter(text, "\n")
		nbad := rapid.IntRange(0, 3).Draw(t, "n_bad")
		for i := 0; i < nbad && len(lines) > 0; i++ {
			at := rapid.IntRange(0, len(lines)-1).Draw(t, fmt.Sprintf("bad%d_at", i))
			bad := rapid.SampledFrom([]string{"  nospace:12\n", "  name: abc\n", "  x: 1,5\n", "\tq: --\n"}).Draw(t, fmt.Sprintf("bad%d", i))
			lines = append(lines[:at:at], append([]string{bad}, lines[at:]...)...)
		}
		c.Text = strings.Join(lines, "")
		if rapid.IntRange(0, 5).Draw(t, "bom") == 5 {
			c.Text = "\xef\xbb\xbf" + c.Text // a UTF-8 byte order mark: part of the first line for both parsers
		}
		c.Entry = rapid.SampledFrom([]string{"stream", "stream", "file", "file-missing", "file-eacces"}).Draw(t, "entry")
		c.Policy = rapid.SampledFrom([]string{"documented", "drain"}).Draw(t, "policy")
		c.ReaderChunk = rapid.SampledFrom([]int{0, 1, 5, 17, 64}).Draw(t, "reader_chunk")
		stall := rapid.SampledFrom([]int64{0, 0, 1, 2, 5, 1000})
		c.ReaderStall = rapid.SliceOfN(stall, 0, 4).Draw(t, "reader_stalls")
		c.Sched = rapid.SliceOfN(rapid.IntRange(0, 5), 0, 16).Draw(t, "schedule")
		c.ConsStall = rapid.SliceOfN(rapid.SampledFrom([]int64{0, 0, 0, 1001, 1000007, 30000007, 1000000007}), 0, 4).Draw(t, "consumer_work")
		if c.Entry == "stream" && rapid.IntRange(0, 3).Draw(t, "read_fault") == 3 {
			c.FaultAt = rapid.IntRange(0, len(c.Text)).Draw(t, "fault_at")
		}
		c.Comment = rapid.SampledFrom([]int{'#', '#', '#', ';', 0}).Draw(t, "comment_char")
		c.StatSizeZero = c.Entry == "file" && rapid.IntRange(0, 2).Draw(t, "stat_size_zero") == 2
		if rapid.IntRange(0, 2).Draw(t, "second_stream") == 2 {
			second := render(genBook(t, BookOpts{MaxRecipes: 3}), plainLayout)
			if rapid.Bool().Draw(t, "second_bad") {
				second += "x:\n  nospace:1\n"
			}
			c.Second = second
		}
		return c
	}
}

type refResult struct {
	heads    []string
	firstErr string // "" when the callback parser reports none
}

// reference runs the callback parser the way the channel adapter is documented
// to: records until the first error.
func (c *CaseC18) reference(text string, faultAt int) refResult {
	var ref refResult
	var r io.Reader = &stallReader{data: text, faultAt: faultAt}
	err := parser.ParseStreamCallback(r, parser.Config{CommentChar: uint8(c.Comment)}, func(n *shared.ParserNode, err error) (bool, error) {
		if err != nil {
			return true, err
		}
		ref.heads = append(ref.heads, nodeString(n))
		return false, nil
	})
	if err != nil {
		ref.firstErr = err.Error()
	}
	return ref
}

func nodeString(n *shared.ParserNode) string {
	var b strings.Builder
	b.WriteString(n.Header)
	for _, e := range n.Elements {
		fmt.Fprintf(&b, "|%s=%v", e.Name, e.Value)
	}
	return b.String()
}

type recvEvent struct {
	kind string // "node", "error", "done"
	val  string
}

// streamObs is what was observed while one stream went through the channel parser.
type streamObs struct {
	label                                       string
	ref                                         refResult
	history                                     []recvEvent
	consumerFinished, producerExitedAfterPolicy bool
	producerExitedAtEnd                         bool
	producerPanic                               string
}

// Eval runs producer and consumer inside a synctest bubble.
func (c *CaseC18) Eval(ob *Obs) []Finding {
	var decisions []string // the interleaving actually taken: scheduler decisions and receives, in order
	var streams []*streamObs
	var deadlock string
	if c.Comment == 0 && c.Entry == "" {
		c.Comment = '#'
	}

	func() {
		defer func() {
			if r := recover(); r != nil {
				deadlock = fmt.Sprint(r)
			}
		}()
		synctest.Test(curT, func(t *testing.T) {
			// --- the seeded cooperative scheduler -------------------------------------------------
			// Every goroutine of the code under test parks at each yield point (R7: before every
			// channel send, at the start of every goroutine) until the scheduler hands it a token.
			// The scheduler is this (the consumer's) goroutine: after synctest.Wait() every other
			// goroutine is parked, blocked on a channel, asleep in fake time, or gone, so the set
			// of possible next steps is well defined and the plan (c.Sched) picks one. Nothing is
			// left to the Go scheduler or to select's random choice.
			sch := newCoop(c.Sched)
			sch.install()
			defer sch.uninstall()
			takeParked, next := sch.take, sch.next
			// goroutines that have just come out of a communication (R14) go on before anything else happens
			runWoken := func() {
				for i := 0; i < 10000; i++ {
					g := sch.takeWoken()
					if g == nil {
						return
					}
					close(g.ch)
					synctest.Wait()
				}
			}
			p := parser.NewParser(parser.Config{CommentChar: uint8(c.Comment)})
			var st *verifsim.State
			defer func() {
				if st != nil {
					st.UninstallLight()
				}
			}()

			runStream := func(so *streamObs, entry, text string, faultAt int) {
				var exited atomic.Bool
				switch entry {
				case "stream":
					rd := &stallReader{data: text, chunk: c.ReaderChunk, stalls: c.ReaderStall, faultAt: faultAt}
					go func() {
						defer func() {
							if r := recover(); r != nil {
								so.producerPanic = fmt.Sprint(r)
							}
							exited.Store(true)
						}()
						p.ParseStream(rd)
					}()
				default:
					w := noFaultWorld()
					kind := "file"
					if entry == "file-eacces" {
						kind = "eacces"
					}
					if entry != "file-missing" {
						chunk := ""
						if c.ReaderChunk > 0 {
							chunk = "fixed"
						}
						w.Files = []FileSpec{{Path: "/sim/in.yaml", Kind: kind, Data: text, Plan: ReadPlan{FaultAt: -1, Chunk: chunk, MaxChunk: c.ReaderChunk}}}
						if c.StatSizeZero {
							w.Files[0].StatSize = new(int64)
						}
					}
					st = verifsim.InstallLight(w)
					go func() {
						defer func() {
							if r := recover(); r != nil {
								so.producerPanic = fmt.Sprint(r)
							}
							exited.Store(true)
						}()
						p.ParseFile("/sim/in.yaml")
					}()
				}
				recording := true
				record := func(kind, val string) {
					if !recording {
						return // clean-up after the consumer has finished: not part of what it observed
					}
					so.history = append(so.history, recvEvent{kind, val})
					decisions = append(decisions, "recv:"+kind)
					if n := len(c.ConsStall); n > 0 {
						if d := c.ConsStall[(len(so.history)-1)%n]; d > 0 && kind != "done" {
							synctest.Wait()
							runWoken()                   // (the producer is not held up by the consumer's work)
							time.Sleep(time.Duration(d)) // the consumer works on the event
						}
					}
				}
				// tryRecv: one non-blocking receive attempt per channel, in the order the plan gives.
				orders := [][3]int{{0, 1, 2}, {0, 2, 1}, {1, 0, 2}, {1, 2, 0}, {2, 0, 1}, {2, 1, 0}}
				tryRecv := func(order [3]int) (got bool) {
					for _, ch := range order {
						switch ch {
						case 0:
							select {
							case n := <-p.Nodes:
								record("node", nodeString(n))
								return true
							default:
							}
						case 1:
							select {
							case err := <-p.Errors:
								record("error", err.Error())
								return true
							default:
							}
						case 2:
							select {
							case <-p.Done:
								record("done", "")
								return true
							default:
							}
						}
					}
					return false
				}
				finished := func() bool {
					if len(so.history) == 0 {
						return false
					}
					last := so.history[len(so.history)-1]
					return last.kind == "done" || (last.kind == "error" && c.Policy == "documented") || len(so.history) > 10000
				}
				const quantum = 1024
				idle := int64(0)
				const idleBudget = int64(1) << 42 // fake nanoseconds without any possible step: the consumer would wait for ever
				// the consumer, driven by the plan
				spun := false // the goroutine released last called runtime.Gosched: the consumer, if it can receive, goes first
				for steps := 0; !finished() && idle < idleBudget && steps < 200000; steps++ {
					synctest.Wait()
					runWoken()
					recvFirst, order, pick, consumerFirst := next()%2 == 0, orders[next()%6], next(), next()%2 == 1
					if spun {
						recvFirst, spun = true, false
					}
					if recvFirst && tryRecv(order) {
						idle = 0
						continue
					}
					if g := takeParked(pick); g != nil {
						idle = 0
						spun = g.site == goschedSite
						decisions = append(decisions, fmt.Sprintf("release:%s:%v", g.site, consumerFirst))
						if !consumerFirst {
							close(g.ch) // the goroutine runs until it parks again, blocks, sleeps or ends
							continue
						}
						// consumer first: it is already waiting in its select when the goroutine moves on
						go func() { time.Sleep(1); close(g.ch) }()
						select {
						case n := <-p.Nodes:
							record("node", nodeString(n))
						case err := <-p.Errors:
							record("error", err.Error())
						case <-p.Done:
							record("done", "")
						case <-time.After(quantum):
						}
						continue
					}
					if !recvFirst && tryRecv(order) {
						idle = 0
						continue
					}
					// nobody can move now: let fake time pass (a stalled reader may wake up)
					d := int64(quantum)
					if idle > 0 {
						d = idle
					}
					idle += d
					time.Sleep(time.Duration(d))
				}
				so.consumerFinished = finished()
				recording = false
				// let the producer side run as far as it can on its own (it passes at most a few
				// schedule points per line of input; a goroutine that spins politely for ever is
				// cut off here and counted as not having exited)
				budget := 64 + 8*strings.Count(text, "\n")
				for i := 0; i < budget; i++ {
					synctest.Wait()
					g := takeParked(0)
					if g == nil {
						break
					}
					close(g.ch)
				}
				synctest.Wait()
				so.producerExitedAfterPolicy = exited.Load()
				// release whatever is still sending, so that the next stream / the end of the bubble is not blocked
				for i := 0; i < budget && !exited.Load(); i++ {
					synctest.Wait()
					if g := takeParked(0); g != nil {
						close(g.ch)
						continue
					}
					if !tryRecv(orders[0]) {
						time.Sleep(quantum << 20)
						if i > 64 {
							break
						}
					}
				}
				synctest.Wait()
				so.producerExitedAtEnd = exited.Load()
			}

			first := &streamObs{label: ""}
			switch c.Entry {
			case "file-missing", "file-eacces":
				first.ref.firstErr = "open"
			default:
				first.ref = c.reference(c.Text, c.FaultAt)
			}
			streams = append(streams, first)
			runStream(first, c.Entry, c.Text, c.FaultAt)
			if c.Second != "" && c.Policy == "drain" && first.consumerFinished && first.producerExitedAfterPolicy {
				second := &streamObs{label: " stream=second-on-the-same-Parser", ref: c.reference(c.Second, -1)}
				streams = append(streams, second)
				runStream(second, "stream", c.Second, -1)
			}
		})
	}()
	verifsim.SetYieldHook(nil)
	verifsim.SetSelectHook(nil)
	if cur := verifsim.Current(); cur != nil {
		cur.UninstallLight()
	}
	ob.count("lib_evals", 1)
	ob.nontrivial(hashOf(c))
	if len(ob.Traces) < setCap {
		ob.Traces[hashOf(decisions)] = struct{}{} // distinct interleavings reached
	}
	for _, d := range decisions {
		if strings.HasSuffix(d, ":true") {
			ob.probe("consumer_waiting_first")
			break
		}
	}
	if len(streams) > 1 {
		ob.probe("second_stream_on_same_parser")
	}
	var out []Finding
	if raceBuild && c.Comment != 0 {
		// under the race detector: three goroutines parse private inputs with the callback parser at the same
		// time (the parser keeps no state of its own, so independent inputs may be parsed concurrently)
		texts := []string{c.Text, c.Second + "\nextra/x:\n  kcal: 1\n", "a/b:\n  kcal: 2\n\n" + c.Text}
		want := make([]refResult, len(texts))
		for i, tx := range texts {
			want[i] = c.reference(tx, -1)
		}
		got := make([]refResult, len(texts))
		var wg sync.WaitGroup
		for i := range texts {
			wg.Add(1)
			go func(i int) {
				defer wg.Done()
				got[i] = c.reference(texts[i], -1)
			}(i)
		}
		wg.Wait()
		ob.probe("concurrent_parses_under_race_detector")
		for i := range texts {
			if fmt.Sprint(got[i]) != fmt.Sprint(want[i]) {
				out = append(out, Finding{"C18 concurrent-parses-interfere", fmt.Sprintf("input %d parsed while two other inputs were being parsed: %v, alone: %v", i, short(fmt.Sprint(got[i]), 300), short(fmt.Sprint(want[i]), 300))})
				break
			}
		}
	}
	for _, so := range streams {
		if so.producerExitedAfterPolicy {
			ob.probe("producer_exited_after_policy")
		} else if so.consumerFinished {
			ob.probe("producer_blocked_detected")
		}
		out = append(out, c.judge(so, deadlock)...)
	}
	return out
}

// judge compares what the consumer saw of one stream with the callback parser.
func (c *CaseC18) judge(so *streamObs, deadlock string) []Finding {
	sigTail := " entry=" + c.Entry + " policy=" + c.Policy + so.label
	history, ref := so.history, so.ref
	var out []Finding
	hist := func() string {
		var b strings.Builder
		for _, e := range history {
			fmt.Fprintf(&b, "%s(%s) ", e.kind, short(e.val, 40))
		}
		return b.String()
	}
	if so.producerPanic != "" {
		return append(out, Finding{"C18 producer-panics" + sigTail, fmt.Sprintf("%s; the consumer had received [%s]", so.producerPanic, hist())})
	}
	if !so.consumerFinished {
		return append(out, Finding{"C18 consumer-never-terminates" + sigTail, fmt.Sprintf("the consumer is blocked for ever after receiving [%s] (%s)", hist(), deadlock)})
	}
	if deadlock != "" && !so.producerExitedAtEnd {
		// the clean-up loop could not release the producer: it is blocked on something that is not one of its channels
		out = append(out, Finding{"C18 producer-stuck" + sigTail, deadlock})
	}
	// records before the first error, in order
	var nodes []string
	var errs []string
	dones := 0
	for i, e := range history {
		switch e.kind {
		case "node":
			if len(errs) > 0 || dones > 0 {
				out = append(out, Finding{"C18 record-after-error-or-done" + sigTail, hist()})
			}
			nodes = append(nodes, e.val)
		case "error":
			errs = append(errs, e.val)
		case "done":
			dones++
			if i != len(history)-1 {
				out = append(out, Finding{"C18 done-not-last" + sigTail, hist()})
			}
		}
	}
	if strings.Join(nodes, "\n") != strings.Join(ref.heads, "\n") {
		out = append(out, Finding{"C18 records-differ-from-callback-parser" + sigTail, fmt.Sprintf("channel: %q callback: %q", nodes, ref.heads)})
	}
	switch {
	case ref.firstErr == "" && len(errs) > 0:
		out = append(out, Finding{"C18 spurious-error" + sigTail, hist()})
	case ref.firstErr != "" && len(errs) == 0:
		out = append(out, Finding{"C18 error-not-delivered" + sigTail, fmt.Sprintf("callback parser fails with %q; consumer saw [%s]", ref.firstErr, hist())})
	case ref.firstErr != "" && ref.firstErr != "open" && errs[0] != ref.firstErr:
		out = append(out, Finding{"C18 different-error" + sigTail, fmt.Sprintf("callback parser: %q channel: %q", ref.firstErr, errs[0])})
	}
	if c.Policy == "drain" {
		if len(errs) > 1 {
			out = append(out, Finding{"C18 error-delivered-more-than-once" + sigTail, fmt.Sprintf("a consumer that keeps receiving saw %d errors: [%s]", len(errs), hist())})
		}
		if dones != 1 {
			out = append(out, Finding{"C18 no-completion-signal" + sigTail, fmt.Sprintf("history ended without Done: [%s]", hist())})
		}
		if !so.producerExitedAfterPolicy {
			out = append(out, Finding{"C18 producer-leaks-after-drain" + sigTail, fmt.Sprintf("after the consumer received until completion the producer goroutine is still blocked; history [%s]", hist())})
		}
	} else {
		// documented loop: ends with Done (no error) or with that error
		last := history[len(history)-1]
		if ref.firstErr == "" && last.kind != "done" {
			out = append(out, Finding{"C18 documented-loop-wrong-end" + sigTail, hist()})
		}
	}
	return out
}
