package harness

import (
	"sort"
	"strings"
	"sync"
	"sync/atomic"

	"github.com/aquilax/hranoprovod-cli/v3/verifsim"
)

// coop is the seeded cooperative goroutine scheduler used inside a
// testing/synctest bubble. Every goroutine of the code under test parks at each
// yield point the instrumenter inserted (R7: before every channel send, before
// every select with a send case, first in every `go func(){...}` body) until
// the scheduler hands it a token; the order in which the cases of a multi-case
// select are tried (R8) comes from the same list of numbers. The scheduler is
// whoever calls take() after synctest.Wait(): at that moment every other
// goroutine is parked, blocked, asleep in fake time or gone, so the set of
// possible steps is well defined and the plan picks one.
type coop struct {
	plan   []int
	step   atomic.Int64
	mu     sync.Mutex
	parked []*parkedG
	seq    atomic.Int64
	// spun: the goroutine released last had parked in runtime.Gosched (R10). Gosched means
	// "let the others run", so the next pick prefers a goroutine that is not spinning: a
	// plan that released the spinner for ever would be an unfair schedule, and what happens
	// under an unfair schedule is no evidence against the code.
	spun bool
}

const goschedSite = "runtime.Gosched"

type parkedG struct {
	site string
	key  int64 // the goroutine's spawn number (verifsim.GKey): the same on every run, unlike the order of arrival
	seq  int64
	ch   chan struct{}
}

func newCoop(plan []int) *coop { return &coop{plan: plan} }

// next returns the next number of the (cyclic) plan.
func (s *coop) next() int {
	i := int(s.step.Add(1) - 1)
	if len(s.plan) == 0 {
		return 0
	}
	return s.plan[i%len(s.plan)]
}

// install makes the scheduler the target of the instrumented yield and select points.
func (s *coop) install() {
	verifsim.SetYieldHook(func(site string) {
		g := &parkedG{site: site, key: verifsim.GKey(), seq: s.seq.Add(1), ch: make(chan struct{})}
		s.mu.Lock()
		s.parked = append(s.parked, g)
		s.mu.Unlock()
		<-g.ch
	})
	verifsim.SetSelectHook(func(site string, n int) []int {
		ord := make([]int, n)
		for i := range ord {
			ord[i] = i
		}
		for i := n - 1; i > 0; i-- {
			j := s.next() % (i + 1)
			ord[i], ord[j] = ord[j], ord[i]
		}
		return ord
	})
}

func (s *coop) uninstall() {
	verifsim.SetYieldHook(nil)
	verifsim.SetSelectHook(nil)
}

// takeWoken removes and returns a goroutine parked at a "+" site (rule R14: it has just come out of a
// communication and parked only so that goroutines run one at a time); nil when there is none. Such a
// goroutine is running as far as the program is concerned: the scheduler lets it go on, in canonical
// order and without spending a number of the plan, before it takes any decision or lets time pass.
func (s *coop) takeWoken() *parkedG {
	s.mu.Lock()
	defer s.mu.Unlock()
	best := -1
	for i, g := range s.parked {
		if !strings.HasSuffix(g.site, "+") {
			continue
		}
		if best < 0 || g.site < s.parked[best].site || (g.site == s.parked[best].site && (g.key < s.parked[best].key || (g.key == s.parked[best].key && g.seq < s.parked[best].seq))) {
			best = i
		}
	}
	if best < 0 {
		return nil
	}
	g := s.parked[best]
	s.parked = append(s.parked[:best], s.parked[best+1:]...)
	return g
}

// take removes one parked goroutine (chosen by pick among the parked ones in a
// canonical order) and returns it; nil when none is parked. Releasing it is
// close(g.ch).
func (s *coop) take(pick int) *parkedG {
	s.mu.Lock()
	defer s.mu.Unlock()
	if len(s.parked) == 0 {
		return nil
	}
	sort.Slice(s.parked, func(i, j int) bool {
		if s.parked[i].site != s.parked[j].site {
			return s.parked[i].site < s.parked[j].site
		}
		if s.parked[i].key != s.parked[j].key {
			return s.parked[i].key < s.parked[j].key
		}
		return s.parked[i].seq < s.parked[j].seq
	})
	if pick < 0 {
		pick = -pick
	}
	cand := make([]int, 0, len(s.parked))
	for i, g := range s.parked {
		if !s.spun || g.site != goschedSite {
			cand = append(cand, i)
		}
	}
	if len(cand) == 0 {
		for i := range s.parked {
			cand = append(cand, i)
		}
	}
	i := cand[pick%len(cand)]
	g := s.parked[i]
	s.spun = g.site == goschedSite
	s.parked = append(s.parked[:i], s.parked[i+1:]...)
	return g
}
