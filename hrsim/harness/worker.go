package harness

import (
	"bufio"
	"encoding/json"
	"flag"
	"fmt"
	"os"
	"regexp"
	"runtime"
	"sort"
	"strconv"
	"strings"
	"time"

	"github.com/aquilax/hranoprovod-cli/v3/verifsim"
	"pgregory.net/rapid"
)

// Finding is one oracle clause that did not hold on one case.
type Finding struct {
	Sig string `json:"sig"` // violation class: property + clause + call site / command shape
	Msg string `json:"msg"`
}

// Case is one fully reified unit of exploration: evaluating it is a pure
// function of its fields and of the code under test.
type Case interface {
	Eval(ob *Obs) []Finding
}

// Obs collects what actually happened while cases are evaluated.
type Obs struct {
	Execs      int
	Nontrivial map[string]struct{}
	Traces     map[string]struct{}
	Perms      map[string]struct{}
	FaultPlan  map[string]int
	FaultFired map[string]int
	OrderModes map[string]int
	Probes     map[string]int
	Zones      map[string]int
	Counters   map[string]int
	SimMin     int64
	SimMax     int64
}

func newObs() *Obs {
	return &Obs{
		Nontrivial: map[string]struct{}{}, Traces: map[string]struct{}{}, Perms: map[string]struct{}{},
		FaultPlan: map[string]int{}, FaultFired: map[string]int{}, OrderModes: map[string]int{},
		Probes: map[string]int{}, Zones: map[string]int{}, Counters: map[string]int{},
	}
}

const setCap = 400000

func (ob *Obs) nontrivial(h string) {
	if len(ob.Nontrivial) < setCap {
		ob.Nontrivial[h] = struct{}{}
	}
}
func (ob *Obs) probe(name string)        { ob.Probes[name]++ }
func (ob *Obs) count(name string, n int) { ob.Counters[name] += n }
func (ob *Obs) planned(kind string)      { ob.FaultPlan[kind]++ }
func (ob *Obs) fired(kind string)        { ob.FaultFired[kind]++ }

// run executes a world and records reach statistics.
func (ob *Obs) run(w World) *Result {
	r := Exec(w)
	ob.Execs++
	if len(ob.Traces) < setCap {
		ob.Traces[r.Trace[:16]] = struct{}{}
	}
	for _, p := range r.Stats.OrderPerms {
		if len(ob.Perms) < setCap {
			ob.Perms[p] = struct{}{}
		}
	}
	if r.Stats.OrderNontrivial > 0 {
		ob.OrderModes[w.Order.Mode]++
	}
	ob.Zones[w.Zone]++
	if ob.SimMin == 0 || w.ClockUnixNano < ob.SimMin {
		ob.SimMin = w.ClockUnixNano
	}
	if w.ClockUnixNano > ob.SimMax {
		ob.SimMax = w.ClockUnixNano
	}
	return r
}

// KnownFinding is one open entry of /verif/KNOWN_FINDINGS.txt.
type KnownFinding struct {
	Property  string `json:"property"`
	Signature string `json:"signature"`
	Status    string `json:"status"` // "open" suppresses; "fixed" suppresses nothing
	Commit    string `json:"commit,omitempty"`
	What      string `json:"what"`
}

// Violation is what a worker reports and what a replay file holds.
type Violation struct {
	Property string          `json:"property"`
	Sig      string          `json:"signature"`
	Msg      string          `json:"message"`
	Case     json.RawMessage `json:"case"`
	Seed     uint64          `json:"seed"`
	Replay   string          `json:"replay,omitempty"`
}

// WorkerOut is the JSON a worker leaves for the aggregator.
type WorkerOut struct {
	Property    string            `json:"property"`
	Tier        string            `json:"tier"`
	Seed        uint64            `json:"seed"`
	Worker      int               `json:"worker"`
	Cases       int               `json:"cases"`
	Evaluations int               `json:"evaluations"`
	Nontrivial  []string          `json:"nontrivial"`
	Traces      []string          `json:"traces"`
	Perms       []string          `json:"perms"`
	FaultPlan   map[string]int    `json:"fault_planned"`
	FaultFired  map[string]int    `json:"fault_fired"`
	OrderModes  map[string]int    `json:"order_modes"`
	Probes      map[string]int    `json:"probes"`
	Zones       map[string]int    `json:"zones"`
	Counters    map[string]int    `json:"counters"`
	SimMin      int64             `json:"sim_min"`
	SimMax      int64             `json:"sim_max"`
	Known       map[string]int    `json:"known"`
	KnownReplay map[string]string `json:"known_replay"`
	Violation   *Violation        `json:"violation,omitempty"`
	Samples     []json.RawMessage `json:"samples"`
	WallS       float64           `json:"wall_s"`
	CapHit      bool              `json:"cap_hit"`
	RapidSeeds  int               `json:"rapid_seeds"`
	Fault       string            `json:"harness_fault,omitempty"`
}

// Worker is the per-process exploration context.
type Worker struct {
	Prop      string
	Tier      string
	Seed      uint64
	Index     int
	N         int
	Rounds    int // rapid.Check invocations
	Checks    int // cases per invocation
	WallCap   time.Duration
	OutPath   string
	ReplayDir string
	LastCase  string
	known     map[string]bool
	ob        *Obs
	out       WorkerOut
	classSig  string // the violation class rapid is currently minimising
	lastViol  *Violation
	stateDep  *Violation // a failure that did not repeat once the process's pools had been emptied
	realViol  *Violation // the first finding of a real-binary arm
	firstHist *Violation // the first failing case of this worker together with the whole-CLI runs that preceded it in the process
	decode    func(json.RawMessage) (Case, error)
	start     time.Time
}

func envInt(name string, def int) int {
	if v := os.Getenv(name); v != "" {
		if n, err := strconv.Atoi(v); err == nil {
			return n
		}
	}
	return def
}

func newWorker(prop string) *Worker {
	seed, _ := strconv.ParseUint(os.Getenv("HRSIM_SEED"), 10, 64)
	wk := &Worker{
		Prop: prop, Tier: os.Getenv("HRSIM_TIER"), Seed: seed,
		Index: envInt("HRSIM_WORKER", 0), N: envInt("HRSIM_NWORKERS", 1),
		Rounds: envInt("HRSIM_ROUNDS", 4), Checks: envInt("HRSIM_CHECKS", 25),
		WallCap:   time.Duration(envInt("HRSIM_WALLCAP_S", 60)) * time.Second,
		OutPath:   os.Getenv("HRSIM_OUT"),
		ReplayDir: os.Getenv("HRSIM_REPLAY_DIR"),
		LastCase:  os.Getenv("HRSIM_LASTCASE"),
		known:     map[string]bool{},
		ob:        newObs(),
		start:     time.Now(),
	}
	if wk.Tier == "" {
		wk.Tier = "quick"
	}
	if p := os.Getenv("HRSIM_KNOWN"); p != "" {
		for _, k := range loadKnown(p) {
			if k.Property == prop && k.Status == "open" {
				wk.known[k.Signature] = true
			}
		}
	}
	wk.out = WorkerOut{Property: prop, Tier: wk.Tier, Seed: seed, Worker: wk.Index, Known: map[string]int{}, KnownReplay: map[string]string{}}
	return wk
}

var openLine = regexp.MustCompile(`^open: property=(\S+) signature="([^"]*)" :: (.*)$`)

// loadKnown reads /verif/KNOWN_FINDINGS.txt. Only "open:" lines suppress
// anything; "fixed:" lines are history and suppress nothing.
func loadKnown(path string) []KnownFinding {
	f, err := os.Open(path)
	if err != nil {
		return nil
	}
	defer f.Close()
	var out []KnownFinding
	sc := bufio.NewScanner(f)
	sc.Buffer(make([]byte, 1<<20), 1<<20)
	for sc.Scan() {
		line := strings.TrimSpace(sc.Text())
		if line == "" || strings.HasPrefix(line, "#") || strings.HasPrefix(line, "fixed:") {
			continue
		}
		m := openLine.FindStringSubmatch(line)
		if m == nil {
			panic(harnessFault{"KNOWN_FINDINGS.txt: unreadable line: " + line})
		}
		out = append(out, KnownFinding{Property: m[1], Signature: m[2], Status: "open", What: m[3]})
	}
	return out
}

// baseCase is implemented by cases that are built around a CLIBase: after rapid's own shrinking a
// World-level pass drops day blocks, recipes, entries and layout variants one at a time while the
// same violation class persists.
type baseCase interface {
	Case
	base() *CLIBase
	clone() baseCase
}

func baseCandidates(b CLIBase) []CLIBase {
	var out []CLIBase
	cp := func() CLIBase {
		var c CLIBase
		raw, _ := json.Marshal(b)
		json.Unmarshal(raw, &c)
		return c
	}
	for i := range b.Log {
		c := cp()
		c.Log = append(c.Log[:i:i], c.Log[i+1:]...)
		out = append(out, c)
	}
	for i := range b.Book {
		c := cp()
		c.Book = append(c.Book[:i:i], c.Book[i+1:]...)
		out = append(out, c)
	}
	for i := range b.Log {
		for j := range b.Log[i].Items {
			c := cp()
			c.Log[i].Items = append(c.Log[i].Items[:j:j], c.Log[i].Items[j+1:]...)
			out = append(out, c)
		}
		if len(b.Log[i].Notes) > 0 {
			c := cp()
			c.Log[i].Notes = nil
			out = append(out, c)
		}
	}
	for i := range b.Book {
		for j := range b.Book[i].Items {
			c := cp()
			c.Book[i].Items = append(c.Book[i].Items[:j:j], c.Book[i].Items[j+1:]...)
			out = append(out, c)
		}
	}
	if b.LogLayout != plainLayout || b.BookLayout != plainLayout {
		c := cp()
		c.LogLayout, c.BookLayout = plainLayout, plainLayout
		out = append(out, c)
	}
	if len(b.Inv.Locals) > 0 {
		c := cp()
		c.Inv.Locals = c.Inv.Locals[:len(c.Inv.Locals)-1]
		out = append(out, c)
	}
	return out
}

// minimise is the World-level pass over a violation rapid has already shrunk.
func (wk *Worker) minimise(decode func(json.RawMessage) (Case, error)) {
	v := wk.out.Violation
	if v == nil {
		return
	}
	c, err := decode(v.Case)
	if err != nil {
		return
	}
	bc, ok := c.(baseCase)
	if !ok {
		return
	}
	scratch := newObs() // reach statistics of the minimiser's own runs are not evidence
	budget := 1500
	for improved := true; improved && budget > 0; {
		improved = false
		for _, cand := range baseCandidates(*bc.base()) {
			if budget--; budget <= 0 {
				break
			}
			try := bc.clone()
			*try.base() = cand
			runtime.GC() // (as in evalCase: a candidate must fail on its own, not thanks to what the last one left in a pool)
			runtime.GC()
			same := false
			for _, f := range try.Eval(scratch) {
				if f.Sig == v.Sig {
					same = true
					v.Msg = f.Msg
				}
			}
			if same {
				bc, improved = try, true
				break
			}
		}
	}
	if raw, err := json.Marshal(bc); err == nil {
		v.Case = raw
	}
}

// needsEarlierRuns marks the signature of a failure reported together with the runs that preceded it.
const needsEarlierRuns = " [after the earlier runs of the process]"

// CaseHistory is a case together with the whole-CLI runs that the worker's process had executed
// before it. It is the replay unit of a failure that needs state left behind by earlier runs.
type CaseHistory struct {
	History []World         `json:"hrsim_history"`
	Inner   json.RawMessage `json:"inner"`
	Prop    string          `json:"prop"`
}

func (h *CaseHistory) Eval(ob *Obs) []Finding {
	for _, w := range h.History {
		Exec(w)
	}
	def, ok := props[h.Prop]
	if !ok {
		panic(harnessFault{"history case of unknown property " + h.Prop})
	}
	c, err := def.decode(h.Inner)
	if err != nil {
		panic(harnessFault{"history case: " + err.Error()})
	}
	fs := c.Eval(ob)
	for i := range fs {
		fs[i].Sig += needsEarlierRuns
	}
	return fs
}

// flakyCases: per property, how to turn an unreproducible in-process failure into a history case.
var flakyCases = map[string]func() Case{"C11": flakyC11, "C08": flakyC08, "C01": flakyC01}

// recTB lets rapid.Check report into the worker instead of failing the process.
type recTB struct {
	failed bool
	msgs   []string
}

type tbStop struct{}

func (r *recTB) Helper()              {}
func (r *recTB) Name() string         { return "hrsim" }
func (r *recTB) Logf(string, ...any)  {}
func (r *recTB) Log(...any)           {}
func (r *recTB) Skipf(string, ...any) { panic(tbStop{}) }
func (r *recTB) Skip(...any)          { panic(tbStop{}) }
func (r *recTB) SkipNow()             { panic(tbStop{}) }
func (r *recTB) Errorf(f string, a ...any) {
	r.failed = true
	r.msgs = append(r.msgs, fmt.Sprintf(f, a...))
}
func (r *recTB) Error(a ...any)            { r.failed = true; r.msgs = append(r.msgs, fmt.Sprint(a...)) }
func (r *recTB) Fatalf(f string, a ...any) { r.Errorf(f, a...); panic(tbStop{}) }
func (r *recTB) Fatal(a ...any)            { r.Error(a...); panic(tbStop{}) }
func (r *recTB) FailNow()                  { r.failed = true; panic(tbStop{}) }
func (r *recTB) Fail()                     { r.failed = true }
func (r *recTB) Failed() bool              { return r.failed }

// explore is the seeded search: Rounds x Checks cases drawn through rapid (the
// only choice source, so its shrinker minimises worlds, schedules and faults
// alike), each evaluated by its Case.Eval.
func (wk *Worker) explore(gen func(t *rapid.T) Case) {
	defer func() {
		if wk.out.Violation == nil && wk.stateDep != nil {
			wk.out.Violation = wk.stateDep
		}
		if wk.out.Violation == nil && wk.realViol != nil {
			wk.out.Violation = wk.realViol
		}
	}()
	flag.Set("rapid.nofailfile", "true")
	flag.Set("rapid.checks", strconv.Itoa(wk.Checks))
	flag.Set("rapid.shrinktime", "20s")
	for round := 0; round < wk.Rounds; round++ {
		if time.Since(wk.start) > wk.WallCap {
			wk.out.CapHit = true
			break
		}
		rs := verifsim.Mix(wk.Seed, uint64(wk.Index), uint64(round), verifsim.HashString(wk.Prop))
		if rs == 0 {
			rs = 1
		}
		flag.Set("rapid.seed", strconv.FormatUint(rs, 10))
		wk.classSig = ""
		wk.lastViol = nil
		tb := &recTB{}
		func() {
			defer func() {
				if r := recover(); r != nil {
					if _, ok := r.(tbStop); !ok {
						panic(r)
					}
				}
			}()
			rapid.Check(tb, func(t *rapid.T) {
				c := gen(t)
				wk.evalCase(t, c, rs)
			})
		}()
		wk.out.RapidSeeds++
		if tb.failed {
			if wk.lastViol == nil {
				panic(harnessFault{"rapid reported a failure the harness did not raise: " + strings.Join(tb.msgs, " | ")})
			}
			for _, m := range tb.msgs {
				if strings.Contains(m, "flaky test") {
					// the same case gave two different outcomes in this process. Where the property itself
					// says "the same on every run" and a history case exists, the history is the replay unit
					// (check replays it in a fresh process and reports exit 2 if it does not reproduce).
					if mk := flakyCases[wk.Prop]; mk != nil {
						hc := mk()
						raw, _ := json.Marshal(hc)
						if fs := hc.Eval(wk.ob); len(fs) > 0 {
							wk.lastViol = &Violation{Property: wk.Prop, Sig: fs[0].Sig, Msg: fs[0].Msg, Case: raw, Seed: rs}
						} else {
							wk.lastViol = &Violation{Property: wk.Prop, Sig: wk.Prop + " outcome-depends-on-earlier-resolutions", Msg: "a case failed and then passed when evaluated again in the same process: " + wk.lastViol.Msg, Case: raw, Seed: rs}
						}
						break
					}
					if wk.firstHist != nil {
						wk.lastViol = wk.firstHist
						break
					}
					panic(harnessFault{"rapid could not reproduce a failure (nondeterminism in the harness): " + m})
				}
			}
			wk.out.Violation = wk.lastViol
			break
		}
	}
}

func (wk *Worker) evalCase(t *rapid.T, c Case, rs uint64) {
	wk.out.Cases++
	raw, err := json.Marshal(c)
	if err != nil {
		panic(harnessFault{"marshal case: " + err.Error()})
	}
	if wk.LastCase != "" {
		os.WriteFile(wk.LastCase, wrapReplay(wk.Prop, "worker died or hung while evaluating this case", "", raw, rs), 0o644)
	}
	if len(wk.out.Samples) < 2 && len(raw) < 6000 {
		wk.out.Samples = append(wk.out.Samples, raw)
	}
	var pre []World
	if keepWorlds && wk.firstHist == nil {
		pre = append(pre, recentWorlds...)
	}
	for _, f := range c.Eval(wk.ob) {
		if wk.known[f.Sig] {
			wk.out.Known[f.Sig]++
			if _, ok := wk.out.KnownReplay[f.Sig]; !ok && wk.ReplayDir != "" {
				p := fmt.Sprintf("%s/%s-known-%s.json", wk.ReplayDir, wk.Prop, hashOf(f.Sig))
				os.WriteFile(p, wrapReplay(wk.Prop, f.Msg, f.Sig, raw, rs), 0o644)
				wk.out.KnownReplay[f.Sig] = p
			}
			continue
		}
		if strings.Contains(f.Sig, "real-binary") || strings.HasSuffix(f.Sig, " [huge]") {
			// (" [huge]": a case too expensive to be re-run hundreds of times by a shrinker, e.g. a book of 120 000 recipes)
			// A finding of a real-binary arm is kept aside: the real program runs under the host's scheduler
			// and clock, so it is not handed to the shrinker (which needs repeatable failures); it is reported
			// if the simulated arms of this worker find nothing, and check replays it like any other.
			if wk.realViol == nil {
				wk.realViol = &Violation{Property: wk.Prop, Sig: f.Sig, Msg: f.Msg, Case: raw, Seed: rs}
			}
			continue
		}
		if wk.classSig == "" {
			wk.classSig = f.Sig
		}
		if f.Sig != wk.classSig {
			continue // while minimising, only the same violation class counts
		}
		raw2, _ := json.Marshal(c) // Eval may have narrowed the case (e.g. to the smallest failing offset)
		if keepWorlds && wk.firstHist == nil && flakyCases[wk.Prop] == nil {
			// should this failure turn out to need what earlier runs left behind in the process (it does not
			// replay alone), those runs followed by this case are the replay unit
			hraw, _ := json.Marshal(&CaseHistory{History: pre, Inner: raw, Prop: wk.Prop})
			wk.firstHist = &Violation{Property: wk.Prop, Sig: f.Sig + needsEarlierRuns, Msg: f.Msg, Case: hraw, Seed: rs}
		}
		// Is the failure the case's own, or does it need what earlier cases left behind in this process?
		// Two garbage collections empty every sync.Pool; the case is then evaluated once more. Only a
		// failure that repeats is handed to the shrinker, so what it minimises replays on its own.
		runtime.GC()
		runtime.GC()
		again := false
		if c2, err := wk.decode(raw2); err == nil {
			for _, f2 := range c2.Eval(newObs()) {
				if f2.Sig == f.Sig {
					again = true
				}
			}
		}
		if !again {
			wk.ob.probe("failure_needing_earlier_state")
			if wk.stateDep == nil {
				v := &Violation{Property: wk.Prop, Sig: wk.Prop + " outcome-depends-on-earlier-runs", Msg: "failed, but not when evaluated again after the process's pools were emptied: " + f.Sig + ": " + f.Msg, Case: raw2, Seed: rs}
				if mk := flakyCases[wk.Prop]; mk != nil {
					v.Case, _ = json.Marshal(mk())
				} else if wk.firstHist != nil {
					v = wk.firstHist
				}
				wk.stateDep = v
			}
			return
		}
		wk.lastViol = &Violation{Property: wk.Prop, Sig: f.Sig, Msg: f.Msg, Case: raw2, Seed: rs}
		t.Fatalf("%s: %s", f.Sig, f.Msg)
	}
}

func wrapReplay(prop, msg, sig string, rawCase json.RawMessage, seed uint64) []byte {
	b, _ := json.MarshalIndent(Violation{Property: prop, Sig: sig, Msg: msg, Case: rawCase, Seed: seed}, "", " ")
	return b
}

func sortedKeys(m map[string]struct{}) []string {
	out := make([]string, 0, len(m))
	for k := range m {
		out = append(out, k)
	}
	sort.Strings(out)
	return out
}

// finish writes the worker's JSON; the exit status is 0 (clean or known only),
// 1 (violation) or 2 (harness fault).
func (wk *Worker) finish() int {
	ob := wk.ob
	o := &wk.out
	o.Evaluations = ob.Execs + ob.Counters["lib_evals"]
	o.Nontrivial = sortedKeys(ob.Nontrivial)
	o.Traces = sortedKeys(ob.Traces)
	o.Perms = sortedKeys(ob.Perms)
	o.FaultPlan, o.FaultFired, o.OrderModes, o.Probes, o.Zones, o.Counters = ob.FaultPlan, ob.FaultFired, ob.OrderModes, ob.Probes, ob.Zones, ob.Counters
	o.SimMin, o.SimMax = ob.SimMin, ob.SimMax
	o.WallS = time.Since(wk.start).Seconds()
	code := 0
	if o.Violation != nil {
		code = 1
		if wk.ReplayDir != "" {
			p := fmt.Sprintf("%s/%s-%d-%s.json", wk.ReplayDir, wk.Prop, wk.Seed, hashOf(o.Violation.Case))
			o.Violation.Replay = p
			b, _ := json.MarshalIndent(o.Violation, "", " ")
			if err := os.WriteFile(p, b, 0o644); err != nil {
				o.Fault = err.Error()
				code = exitHarnessFault
			}
			// where outcomes may depend on earlier operations of the process, the recent history is kept
			// next to the case: check falls back to it when the case alone does not reproduce
			if mk := flakyCases[wk.Prop]; mk != nil {
				raw, _ := json.Marshal(mk())
				hb, _ := json.MarshalIndent(Violation{Property: wk.Prop, Sig: wk.Prop + " outcome-depends-on-earlier-resolutions", Msg: "history of the worker that reported: " + o.Violation.Msg, Case: raw, Seed: o.Violation.Seed}, "", " ")
				os.WriteFile(p+".history.json", hb, 0o644)
			} else if wk.firstHist != nil && string(wk.firstHist.Case) != string(o.Violation.Case) {
				hb, _ := json.MarshalIndent(wk.firstHist, "", " ")
				os.WriteFile(p+".history.json", hb, 0o644)
			}
		}
	}
	if wk.OutPath != "" {
		b, _ := json.Marshal(o)
		if err := os.WriteFile(wk.OutPath, b, 0o644); err != nil {
			fmt.Fprintln(os.Stderr, "hrsim: cannot write worker output:", err)
			return exitHarnessFault
		}
	}
	return code
}
