package harness

import (
	"encoding/json"
	"fmt"
	"github.com/aquilax/hranoprovod-cli/v3/verifsim"
	"os"
	"runtime/debug"
	"testing"
	"time"

	"pgregory.net/rapid"
)

// exitHarnessFault is the worker's exit status for trouble of the machinery itself. It is
// deliberately not 2, which is what the Go runtime uses when the program under test dies
// (unrecovered panic, stack exhaustion); check maps both to its own exit status 2 except where
// a death of the code under test is what the property is about (C08, C11).
const exitHarnessFault = 70

type propDef struct {
	gen    func(thorough bool) func(t *rapid.T) Case
	decode func(raw json.RawMessage) (Case, error)
}

func dec[T any, PT interface {
	*T
	Case
}]() func(raw json.RawMessage) (Case, error) {
	return func(raw json.RawMessage) (Case, error) {
		v := PT(new(T))
		if err := json.Unmarshal(raw, v); err != nil {
			return nil, err
		}
		return v, nil
	}
}

var props = map[string]propDef{
	"C01":  {genC01, dec[CaseC01]()},
	"C11":  {genC11, dec[CaseC11]()},
	"C05":  {genC05, dec[CaseC05]()},
	"C06":  {genC06, dec[CaseC06]()},
	"C08":  {genC08, dec[CaseC08]()},
	"C09":  {genC09, dec[CaseC09]()},
	"C12":  {genC12, dec[CaseC12]()},
	"C16":  {genC16, dec[CaseC16]()},
	"C18":  {genC18, dec[CaseC18]()},
	"REAL": {genReal, dec[CaseReal]()},
	"C10":  {genC10, dec[CaseC10]()},
	"C17":  {genC17, dec[CaseC17]()},
}

// TestHrsim is the single entry point of the worker binary. HRSIM_PROP selects
// the property; HRSIM_REPLAY, if set, replays one recorded case instead of exploring.
func TestHrsim(t *testing.T) {
	prop := os.Getenv("HRSIM_PROP")
	def, ok := props[prop]
	if !ok {
		fmt.Fprintf(os.Stderr, "hrsim: unknown property %q\n", prop)
		os.Exit(exitHarnessFault)
	}
	if inner := def.decode; true {
		def.decode = func(raw json.RawMessage) (Case, error) {
			var probe struct {
				History []World `json:"hrsim_history"`
			}
			if json.Unmarshal(raw, &probe) == nil && probe.History != nil {
				h := &CaseHistory{}
				if err := json.Unmarshal(raw, h); err != nil {
					return nil, err
				}
				return h, nil
			}
			return inner(raw)
		}
	}
	code := exitHarnessFault
	curT = t
	verifsim.SetCPUs(8)          // the simulated machine (rule R12), whatever GOMAXPROCS this worker runs with
	debug.SetMaxStack(256 << 20) // unbounded recursion kills the worker quickly instead of eating memory
	startWatchdog(20 * time.Second)
	func() {
		defer func() {
			if r := recover(); r != nil {
				if hf, ok := r.(harnessFault); ok {
					fmt.Fprintln(os.Stderr, "hrsim: HARNESS FAULT:", hf.msg)
					code = exitHarnessFault
					return
				}
				panic(r)
			}
		}()
		if rp := os.Getenv("HRSIM_REPLAY"); rp != "" {
			code = replay(prop, def, rp)
			return
		}
		wk := newWorker(prop)
		wk.decode = def.decode
		wk.explore(def.gen(wk.Tier == "thorough"))
		wk.minimise(def.decode)
		code = wk.finish()
	}()
	os.Exit(code)
}

// replay re-executes a recorded case in this fresh process: no generator, no seed.
func replay(prop string, def propDef, path string) int {
	b, err := os.ReadFile(path)
	if err != nil {
		fmt.Fprintln(os.Stderr, "hrsim:", err)
		return exitHarnessFault
	}
	var v Violation
	if err := json.Unmarshal(b, &v); err != nil {
		fmt.Fprintln(os.Stderr, "hrsim: bad replay file:", err)
		return exitHarnessFault
	}
	c, err := def.decode(v.Case)
	if err != nil {
		fmt.Fprintln(os.Stderr, "hrsim: bad case in replay file:", err)
		return exitHarnessFault
	}
	ob := newObs()
	fs := c.Eval(ob)
	hit := false
	for _, f := range fs {
		mark := " "
		if f.Sig == v.Sig {
			hit = true
			mark = "*"
		}
		fmt.Printf("REPLAY %s %s :: %s\n", mark, f.Sig, f.Msg)
	}
	fmt.Printf("REPLAY-SUMMARY property=%s findings=%d recorded_signature_reproduced=%v execs=%d\n", prop, len(fs), hit, ob.Execs)
	if hit || (v.Sig == "" && len(fs) > 0) {
		return 1
	}
	return 0
}
