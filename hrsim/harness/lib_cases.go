package harness

import (
	"encoding/csv"
	"fmt"
	"math"
	"math/big"
	"sort"
	"strconv"
	"strings"
	"sync"

	shared "github.com/aquilax/hranoprovod-cli/v3"
	"github.com/aquilax/hranoprovod-cli/v3/parser"
	"github.com/aquilax/hranoprovod-cli/v3/resolver"
	"github.com/aquilax/hranoprovod-cli/v3/verifsim"
	"pgregory.net/rapid"
)

// ---------------------------------------------------------------- reference model

// refModel is the small executable reference: path sums over the ORIGINAL book
// in exact rational arithmetic, and the longest chain of ingredient references.
type refModel struct {
	book  map[string][]Item
	order []string
	memo  map[string]map[string]*big.Rat
	// absMemo: the same expansion with every coefficient replaced by its absolute value, i.e. per recipe and
	// element the sum of the absolute values of all fully expanded terms. Whatever the order and grouping of
	// a float64 evaluation, no intermediate value exceeds it, so the rounding error of the result is a small
	// multiple of 2^-53 times this - NOT times the result or the exact partial sums, which cancellation can
	// make many orders of magnitude smaller than the terms they were computed from
	absMemo map[string]map[string]*big.Rat
	absMax  *big.Rat // largest value met in either expansion: the scale of the book
}

func newRefModel(book []Block) *refModel {
	m := &refModel{book: map[string][]Item{}, memo: map[string]map[string]*big.Rat{}, absMemo: map[string]map[string]*big.Rat{}, absMax: new(big.Rat)}
	for _, b := range book {
		if _, dup := m.book[b.Head]; !dup {
			m.order = append(m.order, b.Head)
		}
		m.book[b.Head] = b.Items // a later declaration replaces an earlier one, as Push does
	}
	return m
}

func ratOf(q string) *big.Rat {
	r, ok := new(big.Rat).SetString(q)
	if !ok {
		panic(harnessFault{"reference model cannot read number " + q})
	}
	return r
}

// chainLen returns the largest number of ingredient references on a path
// starting at a recipe; -1 stands for infinity (a cycle is reachable).
func (m *refModel) chainLen() int {
	const inProgress, unknown = -2, -3
	memo := map[string]int{}
	for k := range m.book {
		memo[k] = unknown
	}
	var walk func(name string) int
	walk = func(name string) int {
		items, isRecipe := m.book[name]
		if !isRecipe {
			return 0
		}
		switch memo[name] {
		case inProgress:
			return -1
		case unknown:
		default:
			return memo[name]
		}
		memo[name] = inProgress
		best := 0
		for _, it := range items {
			d := walk(it.Name)
			if d == -1 {
				memo[name] = -1
				return -1
			}
			if d+1 > best {
				best = d + 1
			}
		}
		memo[name] = best
		return best
	}
	longest := 0
	names := append([]string{}, m.order...)
	sort.Strings(names)
	for _, n := range names {
		d := walk(n)
		if d == -1 {
			return -1
		}
		if d > longest {
			longest = d
		}
	}
	return longest
}

// resolved returns element -> exact amount for one recipe of an acyclic book.
func (m *refModel) resolved(name string) map[string]*big.Rat {
	if r, ok := m.memo[name]; ok {
		return r
	}
	out := map[string]*big.Rat{}
	for _, it := range m.book[name] {
		q := ratOf(it.Qty)
		if _, isRecipe := m.book[it.Name]; isRecipe {
			for el, v := range m.resolved(it.Name) {
				p := new(big.Rat).Mul(q, v)
				m.note(p)
				if cur, ok := out[el]; ok {
					cur.Add(cur, p)
					m.note(cur)
				} else {
					out[el] = p
				}
			}
		} else {
			m.note(q)
			if cur, ok := out[it.Name]; ok {
				cur.Add(cur, q)
				m.note(cur)
			} else {
				out[it.Name] = new(big.Rat).Set(q)
			}
		}
	}
	m.memo[name] = out
	return out
}

// resolvedAbs is resolved with absolute values throughout (see absMemo).
func (m *refModel) resolvedAbs(name string) map[string]*big.Rat {
	if r, ok := m.absMemo[name]; ok {
		return r
	}
	out := map[string]*big.Rat{}
	add := func(el string, p *big.Rat) {
		if cur, ok := out[el]; ok {
			cur.Add(cur, p)
		} else {
			out[el] = new(big.Rat).Set(p)
		}
	}
	m.absMemo[name] = out // (only used on acyclic books; the entry guards against a mistake here looping for ever)
	for _, it := range m.book[name] {
		q := new(big.Rat).Abs(ratOf(it.Qty))
		if _, isRecipe := m.book[it.Name]; isRecipe {
			for el, v := range m.resolvedAbs(it.Name) {
				add(el, new(big.Rat).Mul(q, v))
			}
		} else {
			add(it.Name, q)
		}
	}
	for _, v := range out {
		m.note(v)
	}
	return out
}

func (m *refModel) note(r *big.Rat) {
	a := new(big.Rat).Abs(r)
	if a.Cmp(m.absMax) > 0 {
		m.absMax.Set(a)
	}
}

// ---------------------------------------------------------------- the library under a schedule

func parseBook(text string) (shared.DBNodeMap, error) {
	db := shared.NewDBNodeMap()
	err := parser.ParseStreamCallback(strings.NewReader(text), parser.NewDefaultConfig(), func(n *shared.ParserNode, err error) (bool, error) {
		if err != nil {
			return true, err
		}
		db.Push(shared.NewDBNodeFromNode(n))
		return false, nil
	})
	return db, err
}

// LibStep is one library-level resolution as it was carried out in this process.
type LibStep struct {
	Text     string    `json:"text"`
	MaxDepth int       `json:"maxdepth"`
	Entry    string    `json:"entry"`
	Plan     OrderPlan `json:"plan"`
	Book     []Block   `json:"book,omitempty"` // set when the step is judged against the reference model
}

// callLog is the recent history of resolutions of this process (a ring). If an
// outcome turns out to depend on what was resolved before - hidden state in the
// code under test - the history, not the single case, is the replay unit.
var callLog []LibStep

const callLogCap = 300

func logCall(st LibStep) {
	if len(callLog) >= callLogCap {
		callLog = append(callLog[:0], callLog[callLogCap/3:]...)
	}
	callLog = append(callLog, st)
}

// resolveText parses text and resolves it under plan, recording the step.
func resolveText(text string, book []Block, maxDepth int, entry string, plan OrderPlan, ob *Obs) (shared.DBNodeMap, error, string) {
	db, err := parseBook(text)
	if err != nil {
		panic(harnessFault{"generated book does not parse: " + err.Error()})
	}
	logCall(LibStep{Text: text, MaxDepth: maxDepth, Entry: entry, Plan: plan, Book: book})
	rerr, pan := resolveUnder(db, maxDepth, entry, plan, ob)
	return db, rerr, pan
}

// resolveUnder runs one of the two public entry points under a map-order schedule.
func resolveUnder(db shared.DBNodeMap, maxDepth int, entry string, plan OrderPlan, ob *Obs) (err error, panicked string) {
	w := noFaultWorld()
	w.Order = plan
	st := verifsim.InstallLight(w)
	defer func() {
		st.UninstallLight()
		if r := recover(); r != nil {
			panicked = fmt.Sprint(r)
		}
		ob.count("lib_evals", 1)
		for _, p := range st.Stats.OrderPerms {
			if len(ob.Perms) < setCap {
				ob.Perms[p] = struct{}{}
			}
		}
		if st.Stats.OrderNontrivial > 0 {
			ob.OrderModes[plan.Mode]++
		}
	}()
	enterSUT()
	defer leaveSUT()
	call := func() {
		if entry == "struct" {
			err = resolver.NewResolver(db, resolver.Config{MaxDepth: maxDepth}).Resolve()
		} else {
			_, err = resolver.Resolve(resolver.Config{MaxDepth: maxDepth}, db)
		}
	}
	if !libSched {
		call()
		return err, ""
	}
	// the library starts goroutines of its own: the call runs in a bubble under the cooperative
	// scheduler, with a schedule derived from the book and the map-order plan
	names := make([]string, 0, len(db))
	for n := range db {
		names = append(names, n)
	}
	sort.Strings(names)
	h := verifsim.HashString(hashOf(names) + hashOf(plan) + entry + fmt.Sprint(maxDepth))
	sched := make([]int, 12)
	for i := range sched {
		sched[i] = int((h >> (uint(i) * 5)) & 7)
	}
	if hang := underScheduler(sched, func() {
		defer func() {
			if r := recover(); r != nil {
				panicked = fmt.Sprint(r)
			}
		}()
		call()
	}); hang != "" {
		return nil, hang
	}
	return err, panicked
}

func allPerms(n int) [][]int {
	var out [][]int
	p := seq(n)
	var rec func(k int)
	rec = func(k int) {
		if k == n {
			out = append(out, append([]int{}, p...))
			return
		}
		for i := k; i < n; i++ {
			p[k], p[i] = p[i], p[k]
			rec(k + 1)
			p[k], p[i] = p[i], p[k]
		}
	}
	rec(0)
	return out
}

// schedulesFor returns the visiting orders to try for a book with n recipes:
// every permutation when n <= maxExhaustive, the named and seeded modes beyond.
func schedulesFor(n, maxExhaustive int, seeds []uint64) (plans []OrderPlan, exhaustive bool) {
	if n <= maxExhaustive {
		for _, p := range allPerms(n) {
			plans = append(plans, OrderPlan{Mode: "explicit", Explicit: [][]int{p}})
		}
		return plans, true
	}
	plans = []OrderPlan{{Mode: "asc"}, {Mode: "desc"}}
	for r := 1; r < n && r < 6; r++ {
		plans = append(plans, OrderPlan{Mode: "rotate", Arg: r})
	}
	for _, s := range seeds {
		plans = append(plans, OrderPlan{Mode: "shuffle", Seed: s})
	}
	return plans, false
}

// ---------------------------------------------------------------- C01

// CaseC01 : nested recipes resolve to the exact sum of products.
type CaseC01 struct {
	Book          []Block  `json:"book"`
	MaxDepth      int      `json:"maxdepth"`
	Exact         bool     `json:"exact"`
	MaxExhaustive int      `json:"max_exhaustive"`
	Seeds         []uint64 `json:"seeds"`
	Layout        Layout   `json:"layout"`
	CLI           bool     `json:"cli"` // also observe through `csv database-resolved`
	// Prelude: another resolution carried out in the same process right before each one that is
	// judged ("", "low-limit": the same book with limit 1, which fails; "cycle": the same book plus
	// a self-referencing recipe, which fails). Outcomes must not depend on earlier resolutions.
	Prelude   string     `json:"prelude,omitempty"`
	Only      *OrderPlan `json:"only,omitempty"`
	OnlyEntry string     `json:"only_entry,omitempty"`
	// Seq, when set, makes the case a recorded history of resolutions of one process, replayed in
	// order in a fresh process and judged step by step against the reference model
	Seq []LibStep `json:"seq,omitempty"`
}

func genC01(thorough bool) func(t *rapid.T) Case {
	return func(t *rapid.T) Case {
		c := &CaseC01{MaxDepth: 10, MaxExhaustive: 5}
		if thorough {
			c.MaxExhaustive = 6
		}
		c.Exact = rapid.IntRange(0, 3).Draw(t, "decimal") < 3
		bo := BookOpts{MaxRecipes: 9, ExactOnly: c.Exact}
		if !c.Exact && rapid.IntRange(0, 2).Draw(t, "scales") == 2 {
			bo.Scales = true
		}
		if rapid.IntRange(0, 3).Draw(t, "deep") == 3 {
			bo.DeepChain = rapid.IntRange(3, 9).Draw(t, "deep_chain")
		}
		if rapid.IntRange(0, 3).Draw(t, "small_limit") == 3 {
			c.MaxDepth = rapid.IntRange(2, 9).Draw(t, "maxdepth")
			if bo.DeepChain >= c.MaxDepth {
				bo.DeepChain = c.MaxDepth - 1
			}
		}
		switch rapid.IntRange(0, 15).Draw(t, "wide") {
		case 14, 15:
			bo.MinRecipes, bo.MaxRecipes = 16, 40
		case 13:
			bo.MinRecipes, bo.MaxRecipes = 64, 90
		}
		c.Book = genBook(t, bo)
		c.Layout = genLayout(t, "layout")
		c.Seeds = []uint64{rapid.Uint64().Draw(t, "s1"), rapid.Uint64().Draw(t, "s2"), rapid.Uint64().Draw(t, "s3")}
		c.CLI = rapid.IntRange(0, 3).Draw(t, "cli") == 3
		c.Prelude = rapid.SampledFrom([]string{"", "", "low-limit", "cycle", "shallow-twin", "deep-twin"}).Draw(t, "prelude")
		return c
	}
}

// runPrelude resolves a failing variant of the book on its own map: only state
// hidden in the process (not the book) can carry over to the next resolution.
func runPrelude(kind, text string, maxDepth int, entry string, plan OrderPlan, ob *Obs) {
	switch kind {
	case "low-limit":
		resolveText(text, nil, 1, entry, plan, ob)
	case "cycle":
		resolveText(text+"\nzz/loop:\n  zz/loop: 1\n", nil, maxDepth, entry, plan, ob)
	case "shallow-twin", "deep-twin":
		// a different book under the same recipe names (every recipe one level deep, or all of them
		// in one chain) plus a cycle, so that it fails after most recipes are finished: whatever the
		// process remembers about these names is wrong for the book that is resolved next
		db, err := parseBook(text)
		if err != nil {
			return
		}
		names := make([]string, 0, len(db))
		for n := range db {
			names = append(names, n)
		}
		sort.Strings(names)
		var b strings.Builder
		for i, n := range names {
			next := "kcal"
			if kind == "deep-twin" && i+1 < len(names) {
				next = names[i+1]
			}
			fmt.Fprintf(&b, "%s:\n  %s: 1\n", n, next)
		}
		b.WriteString("zz/loop:\n  zz/loop: 1\n")
		resolveText(b.String(), nil, maxDepth+len(names)+1, entry, plan, ob)
	}
}

func closeEnough(got float64, want *big.Rat, exact bool, scale *big.Rat) (bool, string) {
	wf, _ := want.Float64()
	if exact {
		if got == wf {
			return true, ""
		}
		return false, fmt.Sprintf("got %v want exactly %v", got, want.RatString())
	}
	sc := 0.0
	if scale != nil {
		sc, _ = scale.Float64()
	}
	tol := 1e-9*sc + 1e-12
	if math.Abs(got-wf) <= tol {
		return true, ""
	}
	return false, fmt.Sprintf("got %v want %v (tolerance %g)", got, wf, tol)
}

// compareResolved checks one resolved book against the reference model.
func (c *CaseC01) compareResolved(db shared.DBNodeMap, m *refModel, exact bool) string {
	for _, name := range m.order {
		node, ok := db[name]
		if !ok {
			return fmt.Sprintf("recipe %q disappeared", name)
		}
		want := m.resolved(name)
		seen := map[string]bool{}
		prev := ""
		for i, e := range node.Elements {
			if i > 0 && !(prev < e.Name) {
				return fmt.Sprintf("recipe %q: elements not strictly increasing by name at %q after %q", name, e.Name, prev)
			}
			prev = e.Name
			if _, isRecipe := m.book[e.Name]; isRecipe {
				return fmt.Sprintf("recipe %q: recipe name %q left unexpanded", name, e.Name)
			}
			w, ok := want[e.Name]
			if !ok {
				return fmt.Sprintf("recipe %q: unexpected element %q = %v", name, e.Name, e.Value)
			}
			if ok, why := closeEnough(e.Value, w, exact, m.resolvedAbs(name)[e.Name]); !ok {
				return fmt.Sprintf("recipe %q element %q: %s", name, e.Name, why)
			}
			seen[e.Name] = true
		}
		if len(seen) != len(want) {
			var missing []string
			for el := range want {
				if !seen[el] {
					missing = append(missing, el)
				}
			}
			sort.Strings(missing)
			return fmt.Sprintf("recipe %q: missing elements %v", name, missing)
		}
	}
	if len(db) != len(m.order) {
		return fmt.Sprintf("book has %d recipes after resolution, declared %d", len(db), len(m.order))
	}
	return ""
}

func snapshot(db shared.DBNodeMap) string {
	names := make([]string, 0, len(db))
	for n := range db {
		names = append(names, n)
	}
	sort.Strings(names)
	var b strings.Builder
	for _, n := range names {
		fmt.Fprintf(&b, "%s:", n)
		for _, e := range db[n].Elements {
			fmt.Fprintf(&b, " %s=%b", e.Name, e.Value)
		}
		b.WriteString("\n")
	}
	return b.String()
}

// Eval resolves the book under every schedule and both entry points.
func flakyC01() Case {
	return &CaseC01{MaxDepth: 10, Seq: append([]LibStep{}, callLog...)}
}

func (c *CaseC01) evalSeq(ob *Obs) []Finding {
	for i, st := range c.Seq {
		db, err := parseBook(st.Text)
		if err != nil {
			continue
		}
		rerr, pan := resolveUnder(db, st.MaxDepth, st.Entry, st.Plan, ob)
		if st.Book == nil {
			continue
		}
		m := newRefModel(st.Book)
		L := m.chainLen()
		if L == -1 || L >= st.MaxDepth {
			continue
		}
		for _, n := range m.order {
			m.resolved(n)
			m.resolvedAbs(n)
		}
		ob.nontrivial(fmt.Sprintf("seq/%d/%s", i, hashOf(st)))
		why := ""
		switch {
		case pan != "":
			why = "panic: " + pan
		case rerr != nil:
			why = fmt.Sprintf("longest chain %d < limit %d but Resolve returned %v", L, st.MaxDepth, rerr)
		default:
			why = c.compareResolved(db, m, false)
		}
		if why != "" {
			return []Finding{{"C01 outcome-depends-on-earlier-resolutions", fmt.Sprintf("step %d of %d resolutions in one process, order %s: %s; the same book and schedule on their own come out right, so state survives from earlier resolutions", i+1, len(c.Seq), describePlan(st.Plan), why)}}
		}
	}
	return nil
}

func (c *CaseC01) Eval(ob *Obs) []Finding {
	if len(c.Seq) > 0 {
		return c.evalSeq(ob)
	}
	m := newRefModel(c.Book)
	L := m.chainLen()
	if L == -1 || L >= c.MaxDepth {
		return nil // outside the property's precondition (C11 covers it)
	}
	for _, n := range m.order {
		m.resolved(n)
		m.resolvedAbs(n)
	}
	// float64 arithmetic on dyadic rationals below 2^50 is exact
	exact := c.Exact && m.absMax.Cmp(new(big.Rat).SetInt64(1<<50)) < 0
	text := render(c.Book, c.Layout)
	plans, exhaustive := schedulesFor(len(m.order), c.MaxExhaustive, c.Seeds)
	entries := []string{"func", "struct"}
	if c.Only != nil {
		plans, exhaustive, entries = []OrderPlan{*c.Only}, false, []string{c.OnlyEntry}
	}
	if exhaustive {
		ob.count("exhaustive_permutation_sweeps", 1)
	}
	if L >= 2 {
		ob.probe("nesting_ge_2")
	}
	if L == c.MaxDepth-1 {
		ob.probe("chain_eq_limit_minus_1")
	}
	ch := hashOf(c.Book) + fmt.Sprint(c.MaxDepth)
	var out []Finding
	for _, entry := range entries {
		for pi, plan := range plans {
			db, err := parseBook(text)
			if err != nil {
				panic(harnessFault{"generated book does not parse: " + err.Error()})
			}
			fail := func(sig, msg string) []Finding {
				p := plan
				c.Only, c.OnlyEntry = &p, entry
				return append(out, Finding{sig + " entry=" + entry, fmt.Sprintf("order %s: %s", describePlan(plan), msg)})
			}
			runPrelude(c.Prelude, text, c.MaxDepth, entry, plan, ob)
			logCall(LibStep{Text: text, MaxDepth: c.MaxDepth, Entry: entry, Plan: plan, Book: c.Book})
			rerr, pan := resolveUnder(db, c.MaxDepth, entry, plan, ob)
			if len(m.order) >= 2 {
				ob.nontrivial(fmt.Sprintf("%s/%s/%d", ch, entry, pi))
			}
			if pan != "" {
				return fail("C01 resolve-panics", pan)
			}
			if rerr != nil {
				return fail("C01 resolve-fails-below-limit", fmt.Sprintf("longest chain %d < limit %d but Resolve returned %v", L, c.MaxDepth, rerr))
			}
			if why := c.compareResolved(db, m, exact); why != "" {
				return fail("C01 wrong-resolution", why)
			}
			// resolving an already resolved book, under another order, changes nothing
			before := snapshot(db)
			again := OrderPlan{Mode: "desc"}
			if plan.Mode == "desc" {
				again = OrderPlan{Mode: "asc"}
			}
			rerr, pan = resolveUnder(db, c.MaxDepth, entry, again, ob)
			if pan != "" || rerr != nil {
				return fail("C01 re-resolve-fails", fmt.Sprintf("second Resolve: err=%v panic=%q", rerr, pan))
			}
			if after := snapshot(db); after != before {
				return fail("C01 re-resolve-changes", firstDiff(before, after))
			}
		}
	}
	if c.Only == nil && len(out) == 0 {
		out = append(out, c.evalReuse(ob, m, L, exact)...)
	}
	if raceBuild && c.Only == nil && len(out) == 0 {
		// under the race detector: four goroutines resolve private copies of the book at the same time
		// (the library keeps no state of its own, so independent books may be resolved concurrently)
		var wg sync.WaitGroup
		whys := make([]string, 4)
		for g := 0; g < 4; g++ {
			db, err := parseBook(text)
			if err != nil {
				break
			}
			wg.Add(1)
			go func(g int, db shared.DBNodeMap) {
				defer wg.Done()
				defer func() {
					if r := recover(); r != nil {
						whys[g] = fmt.Sprint("panic: ", r)
					}
				}()
				if _, err := resolver.Resolve(resolver.Config{MaxDepth: c.MaxDepth}, db); err != nil {
					whys[g] = err.Error()
					return
				}
				mg := newRefModel(c.Book)
				for _, n := range mg.order {
					mg.resolved(n)
				}
				whys[g] = c.compareResolved(db, mg, exact)
			}(g, db)
		}
		wg.Wait()
		ob.count("lib_evals", 4)
		ob.probe("concurrent_resolutions_under_race_detector")
		// What the goroutines computed is not judged here: a wrong value caused by a race comes and goes
		// from run to run and would not replay. The race detector is the oracle of this arm - it reports
		// conflicting accesses whether or not they happened to collide, and ends the worker with status 66.
		for _, why := range whys {
			if why != "" {
				ob.probe("concurrent_resolution_differs_from_model")
			}
		}
	}
	if c.CLI && c.Only == nil {
		out = append(out, c.evalCLI(ob, m)...)
		if len(out) == 0 {
			out = append(out, c.evalCLIMore(ob, m)...)
		}
	}
	return out
}

// evalReuse: one Resolver value (and, for comparison, the function) is used a second time after the
// caller has changed the book - a name that was a basic element gets a recipe of its own. The result
// must be what resolving the changed book from scratch gives.
func (c *CaseC01) evalReuse(ob *Obs, m *refModel, L int, exact bool) []Finding {
	if L+1 >= c.MaxDepth {
		return nil
	}
	var basic []string
	for _, n := range m.order {
		for el := range m.resolved(n) {
			basic = append(basic, el)
		}
	}
	if len(basic) == 0 {
		return nil
	}
	sort.Strings(basic)
	x := basic[len(basic)/2]
	added := Block{Head: x, Items: []Item{{"hrsim/y", "2"}, {"hrsim/z", "0.5"}}}
	m2 := newRefModel(append(append([]Block{}, c.Book...), added))
	for _, n := range m2.order {
		m2.resolved(n)
	}
	text := render(c.Book, c.Layout)
	for _, entry := range []string{"struct", "func"} {
		db, err := parseBook(text)
		if err != nil {
			return nil
		}
		w := noFaultWorld()
		w.Order = OrderPlan{Mode: "shuffle", Seed: c.Seeds[2]}
		st := verifsim.InstallLight(w)
		var e1, e2 error
		pan := ""
		func() {
			defer func() {
				if r := recover(); r != nil {
					pan = fmt.Sprint(r)
				}
			}()
			enterSUT()
			defer leaveSUT()
			cfg := resolver.Config{MaxDepth: c.MaxDepth}
			r := resolver.NewResolver(db, cfg)
			if entry == "struct" {
				e1 = r.Resolve()
			} else {
				_, e1 = resolver.Resolve(cfg, db)
			}
			node := shared.NewParserNode(x)
			node.Elements.Add("hrsim/y", 2)
			node.Elements.Add("hrsim/z", 0.5)
			db.Push(shared.NewDBNodeFromNode(node))
			if entry == "struct" {
				e2 = r.Resolve() // the same Resolver value
			} else {
				_, e2 = resolver.Resolve(cfg, db)
			}
		}()
		st.UninstallLight()
		ob.count("lib_evals", 2)
		ob.probe("resolver_used_again_after_book_changed")
		if pan != "" || e1 != nil || e2 != nil {
			return []Finding{{"C01 reuse-after-change-fails entry=" + entry, fmt.Sprintf("errors %v / %v panic %q", e1, e2, pan)}}
		}
		if why := c.compareResolved(db, m2, exact); why != "" {
			return []Finding{{"C01 reuse-after-change-wrong entry=" + entry, fmt.Sprintf("after %q (until then a basic element) was declared as a recipe and the book resolved again with the same resolver: %s", x, why)}}
		}
	}
	return nil
}

func describePlan(p OrderPlan) string {
	switch p.Mode {
	case "explicit":
		return fmt.Sprintf("explicit%v", p.Explicit)
	case "shuffle":
		return fmt.Sprintf("shuffle(%d)", p.Seed)
	case "rotate", "swap":
		return fmt.Sprintf("%s(%d)", p.Mode, p.Arg)
	}
	return p.Mode
}

// evalCLI observes the same book through `csv database-resolved` of the whole program.
func (c *CaseC01) evalCLI(ob *Obs, m *refModel) []Finding {
	var out []Finding
	for _, mode := range []string{"asc", "desc", "shuffle"} {
		w := stdWorld(render(c.Book, c.Layout), "")
		w.Order = OrderPlan{Mode: mode, Seed: c.Seeds[0]}
		w.Argv = []string{"hranoprovod-cli", "--maxdepth", strconv.Itoa(c.MaxDepth), "csv", "database-resolved"}
		switch mode { // the limit reaches the program by flag, by environment or by configuration file
		case "desc":
			w.Env = map[string]string{"HR_MAXDEPTH": strconv.Itoa(c.MaxDepth)}
			w.Argv = []string{"hranoprovod-cli", "csv", "database-resolved"}
		case "shuffle":
			w.Files = append(w.Files, FileSpec{Path: w.Home + "/.hranoprovod/config", Kind: "file", Data: "[Resolver]\nMaxDepth=" + strconv.Itoa(c.MaxDepth) + "\n", Plan: ReadPlan{FaultAt: -1}})
			w.Argv = []string{"hranoprovod-cli", "csv", "database-resolved"}
		}
		r := ob.run(w)
		if r.Failed {
			return append(out, Finding{"C01 cli-resolve-fails", fmt.Sprintf("order %s: csv database-resolved failed: %s %s", mode, r.Err, r.Panic)})
		}
		rows, err := csv.NewReader(strings.NewReader(r.Stdout)).ReadAll()
		if err != nil {
			return append(out, Finding{"C01 cli-output-unreadable", err.Error()})
		}
		got := map[string]map[string]float64{}
		for _, row := range rows {
			if len(row) != 3 {
				return append(out, Finding{"C01 cli-output-unreadable", fmt.Sprint(row)})
			}
			v, err := strconv.ParseFloat(row[2], 64)
			if err != nil {
				return append(out, Finding{"C01 cli-output-unreadable", fmt.Sprint(row)})
			}
			if got[row[0]] == nil {
				got[row[0]] = map[string]float64{}
			}
			if _, dup := got[row[0]][row[1]]; dup {
				return append(out, Finding{"C01 cli-wrong-resolution", fmt.Sprintf("order %s: duplicate row %v", mode, row)})
			}
			got[row[0]][row[1]] = v
		}
		for _, name := range m.order {
			want := m.resolved(name)
			if len(want) != len(got[name]) {
				return append(out, Finding{"C01 cli-wrong-resolution", fmt.Sprintf("order %s: recipe %q has %d rows, model has %d elements", mode, name, len(got[name]), len(want))})
			}
			for el, wv := range want {
				wf, _ := wv.Float64()
				gv, ok := got[name][el]
				// (tolerance relative to the largest partial product: float sums that cancel lose digits of the
				// terms, not of the result)
				scale, _ := m.absMax.Float64()
				if !ok || math.Abs(gv-wf) > 0.005+1e-9*math.Max(math.Abs(wf), scale) {
					return append(out, Finding{"C01 cli-wrong-resolution", fmt.Sprintf("order %s: recipe %q element %q printed %v, model %v", mode, name, el, gv, wf)})
				}
			}
		}
	}
	return out
}

// evalCLIMore observes the resolved book through two more reports of the whole program:
// `report element-total X` (one row per recipe that contains X) and the ingredient lines of `reg`
// for a log that takes every recipe once.
func (c *CaseC01) evalCLIMore(ob *Obs, m *refModel) []Finding {
	var out []Finding
	els := map[string]bool{}
	for _, n := range m.order {
		for el := range m.resolved(n) {
			els[el] = true
		}
	}
	var elNames []string
	for el := range els {
		elNames = append(elNames, el)
	}
	sort.Strings(elNames)
	bookText := render(c.Book, c.Layout)
	scale, _ := m.absMax.Float64()
	near := func(got float64, want *big.Rat) bool {
		wf, _ := want.Float64()
		return math.Abs(got-wf) <= 0.005+1e-9*math.Max(math.Abs(wf), scale)
	}
	for i, el := range elNames {
		if i >= 2 {
			break
		}
		w := stdWorld(bookText, "")
		w.Order = OrderPlan{Mode: "shuffle", Seed: c.Seeds[1]}
		w.Argv = []string{"hranoprovod-cli", "--maxdepth", strconv.Itoa(c.MaxDepth), "report", "element-total", el}
		r := ob.run(w)
		if r.Failed {
			return append(out, Finding{"C01 cli-resolve-fails", fmt.Sprintf("report element-total %q failed: %s %s", el, r.Err, r.Panic)})
		}
		got := map[string]float64{}
		for _, ln := range splitLines(r.Stdout, "\n") {
			tab := strings.Index(ln, "\t")
			if tab < 0 {
				return append(out, Finding{"C01 cli-output-unreadable", ln})
			}
			v, err := strconv.ParseFloat(ln[:tab], 64)
			if _, dup := got[ln[tab+1:]]; err != nil || dup {
				return append(out, Finding{"C01 cli-wrong-resolution", fmt.Sprintf("report element-total %q: bad or duplicate row %q", el, ln)})
			}
			got[ln[tab+1:]] = v
		}
		for _, name := range m.order {
			want, has := m.resolved(name)[el]
			gv, printed := got[name]
			if has != printed || (has && !near(gv, want)) {
				wf := 0.0
				if has {
					wf, _ = want.Float64()
				}
				return append(out, Finding{"C01 cli-wrong-resolution", fmt.Sprintf("report element-total %q: recipe %q printed=%v %v, model has=%v %v", el, name, printed, gv, has, wf)})
			}
		}
	}
	// ingredient lines of the register
	var day strings.Builder
	day.WriteString("2021/01/20:\n")
	for _, n := range m.order {
		day.WriteString("  " + n + ": 1\n")
	}
	w := stdWorld(bookText, day.String())
	w.Order = OrderPlan{Mode: "desc"}
	w.Argv = []string{"hranoprovod-cli", "--no-color", "--maxdepth", strconv.Itoa(c.MaxDepth), "reg", "--no-totals"}
	r := ob.run(w)
	if r.Failed {
		return append(out, Finding{"C01 cli-resolve-fails", fmt.Sprintf("reg failed: %s %s", r.Err, r.Panic)})
	}
	got := map[string]map[string]float64{}
	cur := ""
	for _, ln := range splitLines(r.Stdout, "\n") {
		switch {
		case strings.HasPrefix(ln, "\t\t"):
			f := strings.Fields(ln)
			if len(f) < 2 || cur == "" {
				return append(out, Finding{"C01 cli-output-unreadable", ln})
			}
			v, err := strconv.ParseFloat(f[len(f)-1], 64)
			if err != nil {
				return append(out, Finding{"C01 cli-output-unreadable", ln})
			}
			name := strings.TrimSpace(strings.TrimSuffix(strings.TrimSpace(ln), f[len(f)-1]))
			if _, dup := got[cur][name]; dup {
				return append(out, Finding{"C01 cli-wrong-resolution", fmt.Sprintf("reg: ingredient %q printed twice under %q", name, cur)})
			}
			got[cur][name] = v
		case strings.HasPrefix(ln, "\t"):
			i := strings.LastIndex(ln, " :")
			if i < 0 {
				return append(out, Finding{"C01 cli-output-unreadable", ln})
			}
			cur = strings.TrimSpace(ln[1:i])
			got[cur] = map[string]float64{}
		}
	}
	for _, name := range m.order {
		want := m.resolved(name)
		if len(m.book[name]) == 0 {
			continue // an empty recipe prints no ingredient line
		}
		if len(got[name]) != len(want) {
			return append(out, Finding{"C01 cli-wrong-resolution", fmt.Sprintf("reg: recipe %q shows %d ingredient lines, model has %d elements", name, len(got[name]), len(want))})
		}
		for el, wv := range want {
			if gv, ok := got[name][el]; !ok || !near(gv, wv) {
				wf, _ := wv.Float64()
				return append(out, Finding{"C01 cli-wrong-resolution", fmt.Sprintf("reg: recipe %q ingredient %q printed %v (present=%v), model %v", name, el, gv, ok, wf)})
			}
		}
	}
	return out
}

// ---------------------------------------------------------------- C11

// CaseC11 : the depth limit rejects cycles, accepts legitimate nesting, order-free.
type CaseC11 struct {
	Book          []Block  `json:"book"`
	MaxDepth      int      `json:"maxdepth"`
	MaxExhaustive int      `json:"max_exhaustive"`
	Seeds         []uint64 `json:"seeds"`
	CLI           bool     `json:"cli"`
	Prelude       string   `json:"prelude,omitempty"` // see CaseC01.Prelude
	// Seq, when set, makes the case a recorded history of resolutions of one process, replayed in
	// order; every judged step must come out as the reference model says (see flakyCase).
	Seq       []LibStep  `json:"seq,omitempty"`
	Only      *OrderPlan `json:"only,omitempty"`
	OnlyEntry string     `json:"only_entry,omitempty"`
}

func genC11(thorough bool) func(t *rapid.T) Case {
	return func(t *rapid.T) Case {
		c := &CaseC11{MaxExhaustive: 5}
		if thorough {
			c.MaxExhaustive = 6
		}
		c.MaxDepth = rapid.IntRange(1, 12).Draw(t, "maxdepth")
		bo := BookOpts{MaxRecipes: 9, ExactOnly: true, Cycles: rapid.IntRange(0, 2).Draw(t, "cycles") == 2}
		if rapid.IntRange(0, 1).Draw(t, "near_limit") == 1 {
			// chains of every length around the limit: N-1, N, N+1 references
			bo.DeepChain = c.MaxDepth + rapid.IntRange(-1, 1).Draw(t, "around") + rapid.IntRange(0, 1).Draw(t, "leaf_is_recipe")
			if bo.DeepChain < 2 {
				bo.DeepChain = 2
			}
			if bo.DeepChain > 14 {
				bo.DeepChain = 14
			}
			bo.MaxRecipes = 14
		}
		switch rapid.IntRange(0, 15).Draw(t, "wide") {
		case 14, 15:
			bo.MinRecipes, bo.MaxRecipes = 16, 40
		case 13:
			bo.MinRecipes, bo.MaxRecipes = 64, 90
		}
		c.Book = genBook(t, bo)
		bigShape := rapid.IntRange(0, 3999).Draw(t, "big_shape")
		if bigShape == 3999 && !thorough {
			bigShape = 0 // the 1.2-million-line book costs seconds per case: thorough tier only
		}
		switch {
		case bigShape >= 3900 && bigShape < 3990:
			// a large limit and a chain about as long (the statement is for every N >= 1)
			c.MaxDepth = rapid.IntRange(250, 330).Draw(t, "big_maxdepth")
			refs := c.MaxDepth + rapid.IntRange(-2, 2).Draw(t, "big_around")
			c.Book = nil
			for i := 0; i < refs; i++ {
				next := fmt.Sprintf("c%03d", i+1)
				if i == refs-1 {
					next = "kcal"
				}
				c.Book = append(c.Book, Block{Head: fmt.Sprintf("c%03d", i), Items: []Item{{next, "1"}}})
			}
			order := rapid.Permutation(seq(len(c.Book))).Draw(t, "big_declaration_order")
			out := make([]Block, len(c.Book))
			for i, j := range order {
				out[i] = c.Book[j]
			}
			c.Book = out
		case bigShape == 3999:
			// a very large flat book: many recipes, every chain one reference long
			nrec := 120000
			c.Book = make([]Block, 0, nrec)
			for i := 0; i < nrec; i++ {
				bl := Block{Head: fmt.Sprintf("f/%06d", i)}
				for j := 0; j < 9; j++ {
					bl.Items = append(bl.Items, Item{elementPool[j%len(elementPool)] + fmt.Sprint(j), "1"})
				}
				c.Book = append(c.Book, bl)
			}
			c.MaxDepth = rapid.IntRange(2, 12).Draw(t, "huge_maxdepth")
		}
		c.Seeds = []uint64{rapid.Uint64().Draw(t, "s1"), rapid.Uint64().Draw(t, "s2"), rapid.Uint64().Draw(t, "s3"), rapid.Uint64().Draw(t, "s4")}
		c.CLI = rapid.IntRange(0, 3).Draw(t, "cli") == 3
		c.Prelude = rapid.SampledFrom([]string{"", "", "low-limit", "cycle", "shallow-twin", "deep-twin"}).Draw(t, "prelude")
		return c
	}
}

// evalReuse: after a successful resolution the caller changes the book and resolves again with the
// same Resolver value (and, for comparison, with the function): (a) a new recipe that uses the
// formerly deepest recipe once - the book is flat now, so its longest chain is 2 references;
// (b) a recipe redefined to use itself - a cycle, which must be rejected.
func (c *CaseC11) evalReuse(ob *Obs, m *refModel, text string) []Finding {
	names := append([]string{}, m.order...)
	sort.Strings(names)
	deepest, best := names[0], -1
	// the deepest recipe of the original book
	for _, n := range names {
		sub := newRefModel(nil)
		sub.book, sub.order = m.book, []string{n}
		if d := sub.chainLen(); d > best {
			deepest, best = n, d
		}
	}
	for _, entry := range []string{"struct", "func"} {
		for _, variant := range []string{"flat-then-new-user", "redefined-into-cycle"} {
			db, err := parseBook(text)
			if err != nil {
				return nil
			}
			w := noFaultWorld()
			w.Order = OrderPlan{Mode: "shuffle", Seed: c.Seeds[3]}
			st := verifsim.InstallLight(w)
			var e1, e2 error
			pan := ""
			func() {
				defer func() {
					if r := recover(); r != nil {
						pan = fmt.Sprint(r)
					}
				}()
				enterSUT()
				defer leaveSUT()
				cfg := resolver.Config{MaxDepth: c.MaxDepth}
				r := resolver.NewResolver(db, cfg)
				if entry == "struct" {
					e1 = r.Resolve()
				} else {
					_, e1 = resolver.Resolve(cfg, db)
				}
				node := shared.NewParserNode("hrsim/user")
				node.Elements.Add(deepest, 1)
				if variant == "redefined-into-cycle" {
					node = shared.NewParserNode(deepest)
					node.Elements.Add(deepest, 1)
				}
				db.Push(shared.NewDBNodeFromNode(node))
				if entry == "struct" {
					e2 = r.Resolve() // the same Resolver value
				} else {
					_, e2 = resolver.Resolve(cfg, db)
				}
			}()
			st.UninstallLight()
			ob.count("lib_evals", 2)
			ob.probe("resolver_used_again_after_book_changed")
			if pan != "" || e1 != nil {
				return []Finding{{"C11 reuse-first-call-wrong entry=" + entry, fmt.Sprintf("first call: err=%v panic=%q although the longest chain is below the limit", e1, pan)}}
			}
			// the reference model of the changed book: after the first call every recipe is flat (its
			// resolved elements), plus the recipe that was added or redefined
			var book2 []Block
			for _, n := range m.order {
				bl := Block{Head: n}
				var els []string
				for el := range m.resolved(n) {
					els = append(els, el)
				}
				sort.Strings(els)
				for _, el := range els {
					bl.Items = append(bl.Items, Item{el, "1"})
				}
				book2 = append(book2, bl)
			}
			if variant == "redefined-into-cycle" {
				book2 = append(book2, Block{Head: deepest, Items: []Item{{deepest, "1"}}})
			} else {
				book2 = append(book2, Block{Head: "hrsim/user", Items: []Item{{deepest, "1"}}})
			}
			L2 := newRefModel(book2).chainLen()
			wantErr := L2 == -1 || L2 >= c.MaxDepth
			if (e2 != nil) != wantErr {
				return []Finding{{"C11 reuse-after-change-wrong entry=" + entry + " change=" + variant,
					fmt.Sprintf("limit %d; after a successful resolution the book was changed (%s, recipe %q, original depth %d) and resolved again with the same resolver: error=%v, expected error=%v", c.MaxDepth, variant, deepest, best, e2, wantErr)}}
			}
		}
	}
	return nil
}

// flakyC11 turns "the same case gave two different outcomes in this process" into a
// replayable case: the recent history of resolutions.
func flakyC11() Case {
	return &CaseC11{MaxDepth: 1, Seq: append([]LibStep{}, callLog...)}
}

func (c *CaseC11) evalSeq(ob *Obs) []Finding {
	for i, st := range c.Seq {
		db, err := parseBook(st.Text)
		if err != nil {
			continue
		}
		rerr, pan := resolveUnder(db, st.MaxDepth, st.Entry, st.Plan, ob)
		if st.Book == nil {
			continue
		}
		L := newRefModel(st.Book).chainLen()
		wantErr := L == -1 || L >= st.MaxDepth
		ob.nontrivial(fmt.Sprintf("seq/%d/%s", i, hashOf(st)))
		if pan != "" || (rerr != nil) != wantErr {
			return []Finding{{"C11 outcome-depends-on-earlier-resolutions", fmt.Sprintf("step %d of %d resolutions in one process: longest chain %d, limit %d, order %s: error=%v panic=%q, expected error=%v; the same book and schedule on their own come out right, so state survives from earlier resolutions", i+1, len(c.Seq), L, st.MaxDepth, describePlan(st.Plan), rerr, pan, wantErr)}}
		}
	}
	return nil
}

// Eval checks "error iff some chain has N or more references" under every schedule.
func (c *CaseC11) Eval(ob *Obs) []Finding {
	if len(c.Seq) > 0 {
		return c.evalSeq(ob)
	}
	m := newRefModel(c.Book)
	L := m.chainLen()
	wantErr := L == -1 || L >= c.MaxDepth
	text := render(c.Book, plainLayout)
	plans, exhaustive := schedulesFor(len(m.order), c.MaxExhaustive, c.Seeds)
	entries := []string{"func", "struct"}
	huge := len(m.order) > 5000
	if huge {
		plans, entries = []OrderPlan{{Mode: "shuffle", Seed: c.Seeds[0]}}, []string{"func"}
		ob.probe("book_with_over_5000_recipes")
	}
	if c.MaxDepth > 200 {
		ob.probe("limit_over_200")
	}
	if c.Only != nil {
		plans, exhaustive, entries = []OrderPlan{*c.Only}, false, []string{c.OnlyEntry}
	}
	if exhaustive {
		ob.count("exhaustive_permutation_sweeps", 1)
	}
	switch {
	case L == -1:
		ob.probe("cycle_reached")
	case L == c.MaxDepth:
		ob.probe("chain_eq_limit")
	case L == c.MaxDepth-1:
		ob.probe("chain_eq_limit_minus_1")
	case L == c.MaxDepth+1:
		ob.probe("chain_eq_limit_plus_1")
	}
	ch := hashOf(c.Book) + fmt.Sprint(c.MaxDepth)
	var out []Finding
	for _, entry := range entries {
		for pi, plan := range plans {
			runPrelude(c.Prelude, text, c.MaxDepth, entry, plan, ob)
			_, rerr, pan := resolveText(text, c.Book, c.MaxDepth, entry, plan, ob)
			if len(m.order) >= 2 {
				ob.nontrivial(fmt.Sprintf("%s/%s/%d", ch, entry, pi))
			}
			if c.Prelude != "" {
				ob.probe("resolution_after_failed_resolution")
			}
			var f *Finding
			chain := fmt.Sprint(L)
			if L == -1 {
				chain = "infinite (cycle)"
			}
			switch {
			case pan != "":
				f = &Finding{"C11 resolve-panics entry=" + entry, pan}
			case wantErr && rerr == nil:
				f = &Finding{"C11 accepts-chain-at-or-over-limit entry=" + entry, fmt.Sprintf("order %s: longest chain %s >= limit %d but Resolve succeeded", describePlan(plan), chain, c.MaxDepth)}
			case !wantErr && rerr != nil:
				f = &Finding{"C11 rejects-chain-below-limit entry=" + entry, fmt.Sprintf("order %s: longest chain %s < limit %d but Resolve failed: %v", describePlan(plan), chain, c.MaxDepth, rerr)}
			}
			if f != nil {
				p := plan
				c.Only, c.OnlyEntry = &p, entry
				if huge {
					f.Sig += " [huge]"
				}
				return append(out, *f)
			}
		}
	}
	if c.Only == nil && len(out) == 0 && !wantErr && len(m.order) > 0 && !huge {
		out = append(out, c.evalReuse(ob, m, text)...)
	}
	if c.CLI && c.Only == nil && !huge {
		for _, sh := range []string{"csv database-resolved", "reg", "bal", "report totals"} {
			for _, mode := range []string{"asc", "desc", "shuffle"} {
				w := stdWorld(text, "2021/01/20:\n  kcal: 1\n")
				w.Order = OrderPlan{Mode: mode, Seed: c.Seeds[0]}
				// the limit reaches the program by flag, by environment or by configuration file
				var g []string
				switch via := (c.Seeds[1] + uint64(len(sh)) + uint64(len(mode))) % 3; via {
				case 0:
					g = []string{"--maxdepth", strconv.Itoa(c.MaxDepth)}
				case 1:
					w.Env = map[string]string{"HR_MAXDEPTH": strconv.Itoa(c.MaxDepth)}
				default:
					w.Files = append(w.Files, FileSpec{Path: w.Home + "/.hranoprovod/config", Kind: "file", Data: "[Resolver]\nMaxDepth=" + strconv.Itoa(c.MaxDepth) + "\n", Plan: ReadPlan{FaultAt: -1}})
				}
				w.Argv = Invocation{Shape: sh, Globals: g}.Argv()
				r := ob.run(w)
				if r.Panic != "" {
					out = append(out, Finding{"C11 cli-panics cmd=" + sh, r.Panic})
				} else if r.Failed != wantErr {
					out = append(out, Finding{"C11 cli-wrong-outcome cmd=" + sh, fmt.Sprintf("order %s: longest chain %d, --maxdepth %d: failed=%v (%s), expected failed=%v", mode, L, c.MaxDepth, r.Failed, r.Err, wantErr)})
				}
			}
		}
	}
	return out
}
