package harness

import (
	"bytes"
	"fmt"
	"os"
	"os/exec"
	"path/filepath"
	"sort"
	"strings"

	"pgregory.net/rapid"
)

// CaseReal is the fidelity arm: one world is executed in the simulator and,
// materialised on the real file system, by the UNINSTRUMENTED binary built
// with the repository's own toolchain. Exit status and stdout must agree. A
// disagreement is a fault of the machinery (exit 2), never a VIOLATION.
type CaseReal struct {
	W       World  `json:"world"`
	DevFull bool   `json:"dev_full"`    // stdout is /dev/full  <->  sink failing from offset 0 with ENOSPC
	Closed  bool   `json:"closed_pipe"` // stdout is a pipe nobody reads  <->  sink failing from offset 0 with EPIPE
	Note    string `json:"note"`
}

var realBin = os.Getenv("HRSIM_REALBIN")

func genReal(thorough bool) func(t *rapid.T) Case {
	names := shapeNames(func(s Shape) bool { return s.Name != "gen man" && s.Name != "gen markdown" })
	return func(t *rapid.T) Case {
		c := &CaseReal{}
		kind := rapid.SampledFrom([]string{"plain", "plain", "devfull", "closedpipe", "dir", "longline", "missing", "config"}).Draw(t, "kind")
		c.Note = kind
		if kind == "config" {
			k := genC16(thorough)(t).(*CaseC16)
			cell := cellC16{flag: copyMap(k.Flag), env: copyMap(k.Env), cfg: copyMap(k.Cfg), cfgFile: rapid.Bool().Draw(t, "cfg_file")}
			cell.flag["today"] = true // the real clock is not ours
			tail := rapid.SampledFrom([][]string{{"csv", "database"}, {"csv", "log"}, {"stats"}, {"csv", "database-resolved"}}).Draw(t, "obs")
			zone := rapid.SampledFrom([]string{"UTC", "America/Los_Angeles", "Asia/Tokyo", "Pacific/Kiritimati"}).Draw(t, "zone")
			k.Zone = zone
			c.W = k.build(cell, tail, c16Layouts[cell.winner("datefmt")], rapid.IntRange(1, 11).Draw(t, "chain"), rapid.SampledFrom([]string{"flag", "env"}).Draw(t, "locator")) // the real default location is the passwd home of the user running the check: not ours to write
			return c
		}
		base := genCLIBase(t, baseOpts{shapes: names, book: BookOpts{MaxRecipes: 6, Cycles: rapid.IntRange(0, 5).Draw(t, "cyc") == 5}, log: LogOpts{MaxDays: 6}, big: true})
		today := baseDay.AddDate(0, 0, rapid.IntRange(0, 12).Draw(t, "today")).Format(defaultDateLayout)
		base.Inv.Globals = append(base.Inv.Globals, "--today", today)
		if rapid.Bool().Draw(t, "period") {
			base.Inv.Globals = append(base.Inv.Globals, "-b", rapid.SampledFrom([]string{"today", "yesterday", "last7", "2021/01/22"}).Draw(t, "b"))
		}
		c.W = base.world()
		c.W.Zone = rapid.SampledFrom([]string{"UTC", "America/Los_Angeles", "Asia/Tokyo", "Pacific/Kiritimati", "Pacific/Pago_Pago", "Europe/Sofia"}).Draw(t, "zone")
		target := rapid.SampledFrom([]string{"log.yaml", "food.yaml"}).Draw(t, "target")
		fi := fileIdx(&c.W, target)
		switch kind {
		case "devfull":
			c.DevFull = true
			c.W.Sink = SinkPlan{FailAt: 0, Kind: "ENOSPC"}
		case "closedpipe":
			c.Closed = true
			c.W.Sink = SinkPlan{FailAt: 0, Kind: "EPIPE"}
		case "dir":
			c.W.Files[fi].Kind = "dir"
		case "missing":
			c.W.Files = append(c.W.Files[:fi:fi], c.W.Files[fi+1:]...)
		case "longline":
			c.W.Files[fi].Data = "# " + strings.Repeat("x", rapid.SampledFrom([]int{65534, 65536, 70000}).Draw(t, "long")) + "\n" + c.W.Files[fi].Data
		}
		return c
	}
}

// realRun is what the uninstrumented binary did on a materialised world.
type realRun struct {
	failed         bool
	stdout, stderr string
}

// runReal materialises w under a fresh temporary directory and runs the real binary on it.
// sink: "" (captured), "devfull", "closedpipe" or "fullfile" (a regular file that cannot grow).
func runReal(w World, sink string) realRun {
	if realBin == "" {
		panic(harnessFault{"HRSIM_REALBIN is not set"})
	}
	root, err := os.MkdirTemp(os.Getenv("HRSIM_SCRATCH_DIR"), "real")
	if err != nil {
		panic(harnessFault{err.Error()})
	}
	defer os.RemoveAll(root)
	re := func(s string) string { return strings.ReplaceAll(s, "/sim/", root+"/sim/") }
	abs := func(p string) string {
		if !strings.HasPrefix(p, "/") {
			p = w.Cwd + "/" + p
		}
		return re(filepath.Clean(p))
	}
	must := func(err error) {
		if err != nil {
			panic(harnessFault{"materialising the world: " + err.Error()})
		}
	}
	must(os.MkdirAll(abs(w.Cwd), 0o755))
	must(os.MkdirAll(abs(w.Home), 0o755))
	for _, f := range w.Files {
		p := abs(f.Path)
		must(os.MkdirAll(filepath.Dir(p), 0o755))
		if f.Kind == "dir" {
			must(os.MkdirAll(p, 0o755))
			continue
		}
		must(os.WriteFile(p, []byte(re(f.Data)), 0o644))
	}
	args := make([]string, 0, len(w.Argv))
	for _, a := range w.Argv[1:] {
		args = append(args, re(a))
	}
	cmd := exec.Command(realBin, args...)
	if sink == "fullfile" {
		// a regular file that cannot grow (RLIMIT_FSIZE 0: every write fails with EFBIG, as ENOSPC would on a full disk)
		cmd = exec.Command("/bin/sh", append([]string{"-c", `ulimit -f 0 && exec "$0" "$@"`, realBin}, args...)...)
	}
	cmd.Dir = abs(w.Cwd)
	env := []string{"HOME=" + abs(w.Home), "USER=sim", "TZ=" + w.Zone, "PATH=/usr/bin:/bin"}
	keys := make([]string, 0, len(w.Env))
	for k := range w.Env {
		keys = append(keys, k)
	}
	sort.Strings(keys)
	for _, k := range keys {
		env = append(env, k+"="+re(w.Env[k]))
	}
	cmd.Env = env
	var stdout, stderr bytes.Buffer
	cmd.Stderr = &stderr
	switch sink {
	case "devfull":
		f, err := os.OpenFile("/dev/full", os.O_WRONLY, 0)
		must(err)
		defer f.Close()
		cmd.Stdout = f
	case "fullfile":
		f, err := os.OpenFile(filepath.Join(root, "stdout.txt"), os.O_WRONLY|os.O_CREATE|os.O_TRUNC, 0o644)
		must(err)
		defer f.Close()
		cmd.Stdout = f
	case "closedpipe":
		pr, pw, err := os.Pipe()
		must(err)
		pr.Close() // nobody will ever read: the first write gets EPIPE / SIGPIPE
		defer pw.Close()
		cmd.Stdout = pw
	default:
		cmd.Stdout = &stdout
	}
	runErr := cmd.Run()
	if ee, ok := runErr.(*exec.ExitError); runErr != nil && (!ok || (ee.ExitCode() < 0 && sink != "closedpipe")) {
		// (with a closed pipe the process is ended by SIGPIPE, which is a non-zero status as far as the property goes)
		panic(harnessFault{"cannot run the real binary: " + runErr.Error()})
	}
	return realRun{failed: runErr != nil, stdout: strings.ReplaceAll(stdout.String(), root+"/sim/", "/sim/"), stderr: strings.ReplaceAll(stderr.String(), root+"/sim/", "/sim/")}
}

// Eval runs the world twice: simulated and real.
func (c *CaseReal) Eval(ob *Obs) []Finding {
	sim := ob.run(c.W)
	sink := ""
	if c.DevFull {
		sink = "devfull"
	} else if c.Closed {
		sink = "closedpipe"
	}
	rr := runReal(c.W, sink)
	ob.count("real_binary_runs", 1)
	ob.nontrivial(hashOf(c))
	ob.probe("real_" + c.Note)
	var out []Finding
	if sim.Panic != "" {
		// a crash in the simulator must be a crash of the real binary too (exit status 2 of the Go runtime)
		if !rr.failed {
			out = append(out, Finding{"REAL panic-only-in-sim", short(sim.Panic, 200)})
		}
		return out
	}
	if sim.Failed != rr.failed {
		out = append(out, Finding{"REAL exit-status-differs kind=" + c.Note, fmt.Sprintf("sim failed=%v (%s); real failed=%v stderr=%q argv=%q", sim.Failed, sim.Err, rr.failed, short(rr.stderr, 300), c.W.Argv)})
	}
	if sink == "" && sim.Stdout != rr.stdout {
		out = append(out, Finding{"REAL stdout-differs kind=" + c.Note, fmt.Sprintf("%s argv=%q", firstDiff(sim.Stdout, rr.stdout), c.W.Argv)})
	}
	if sink == "" && sim.Failed && sim.Err != "" && !strings.Contains(rr.stderr, sim.Err) {
		out = append(out, Finding{"REAL error-message-differs kind=" + c.Note, fmt.Sprintf("sim: %q real stderr: %q argv=%q", sim.Err, short(rr.stderr, 300), c.W.Argv)})
	}
	return out
}
