package harness

import (
	"fmt"
	"regexp"
	"strings"
	"time"

	"pgregory.net/rapid"
)

// CaseC16 : settings follow flag > environment > configuration file > default.
// The whole environment of the process is part of the simulated world: the
// HR_* variables, the configuration file and where it is found, the current
// directory, the home directory, the clock.
type CaseC16 struct {
	Kind  string `json:"kind"`  // "precedence", "locator", "no-database"
	Focus string `json:"focus"` // the setting whose 12-cell product is enumerated
	// sources of the settings that are not in focus
	Flag map[string]bool `json:"flag"`
	Env  map[string]bool `json:"env"`
	Cfg  map[string]bool `json:"cfg"`
	// how the configuration file is found, for Kind "precedence"
	Locator string `json:"locator"` // "default", "flag", "env"
	Zone    string `json:"zone"`
	Clock   int64  `json:"clock"`
	// Kind "no-database"
	NDShape    string `json:"nd_shape,omitempty"`
	NDFoodYaml bool   `json:"nd_food_yaml,omitempty"` // a food.yaml exists in the cwd
	NDNamedBy  string `json:"nd_named_by,omitempty"`  // "", "flag", "env", "config"
	NDFalse    bool   `json:"nd_false,omitempty"`     // the switch is written --no-database=false: the book must be used as usual
	// CfgSymlink: the configuration file is reached through a symbolic link (a dotfiles repository)
	CfgSymlink bool `json:"cfg_symlink,omitempty"`
	// DefaultSpelling: the flag (and environment) value of the book and log paths is spelled exactly like
	// the documented default (food.yaml / log.yaml); it must still win over the configuration file
	DefaultSpelling bool   `json:"default_spelling,omitempty"`
	Only            string `json:"only,omitempty"`
	// CfgFifo: the configuration file is a FIFO / process substitution: it reports size 0 and delivers its bytes a few at a time
	CfgFifo bool `json:"cfg_fifo,omitempty"`
	// Order is the map-order schedule: which source wins must not depend on the order in which a table of settings is walked
	Order OrderPlan `json:"order"`
}

var c16Settings = []string{"db", "log", "datefmt", "depth", "today"}

var c16Layouts = map[string]string{"flag": "2006-01-02", "env": "02.01.2006", "config": "01/02/2006", "default": "2006/01/02"}
var c16Depths = map[string]int{"flag": 3, "env": 4, "config": 5, "default": 10}
var c16DB = map[string]string{"flag": "db_flag.yaml", "env": "/sim/env/db_env.yaml", "config": "/sim/cfg/db_cfg.yaml", "default": "food.yaml"}
var c16Log = map[string]string{"flag": "log_flag.yaml", "env": "/sim/env/log_env.yaml", "config": "/sim/cfg/log_cfg.yaml", "default": "log.yaml"}
var c16EnvName = map[string]string{"db": "HR_DATABASE", "log": "HR_LOGFILE", "datefmt": "HR_DATE_FORMAT", "depth": "HR_MAXDEPTH"}

var c16FlagDay = time.Date(2021, 3, 1, 0, 0, 0, 0, time.UTC)

const c16CfgNow = "2020-05-05T01:00:00Z"

func genC16(thorough bool) func(t *rapid.T) Case {
	return func(t *rapid.T) Case {
		c := &CaseC16{Flag: map[string]bool{}, Env: map[string]bool{}, Cfg: map[string]bool{}}
		c.Kind = rapid.SampledFrom([]string{"precedence", "precedence", "precedence", "locator", "no-database"}).Draw(t, "kind")
		c.Focus = rapid.SampledFrom(c16Settings).Draw(t, "focus")
		for _, s := range c16Settings {
			c.Flag[s] = rapid.Bool().Draw(t, s+"_flag")
			c.Env[s] = rapid.Bool().Draw(t, s+"_env")
			c.Cfg[s] = rapid.Bool().Draw(t, s+"_cfg")
		}
		c.Locator = rapid.SampledFrom([]string{"default", "flag", "env"}).Draw(t, "locator")
		c.Zone = rapid.SampledFrom(zonePool).Draw(t, "zone")
		c.Clock = rapid.SampledFrom(clockPool).Draw(t, "clock")
		c.NDShape = rapid.SampledFrom([]string{"reg", "bal", "report totals", "report unresolved", "csv database-resolved", "bal -s", "summary", "csv database", "stats"}).Draw(t, "nd_shape")
		c.NDFoodYaml = rapid.Bool().Draw(t, "nd_food_yaml")
		c.NDNamedBy = rapid.SampledFrom([]string{"", "flag", "env", "config"}).Draw(t, "nd_named_by")
		c.NDFalse = rapid.IntRange(0, 3).Draw(t, "nd_false") == 3
		c.DefaultSpelling = rapid.IntRange(0, 3).Draw(t, "default_spelling") == 3
		c.CfgSymlink = rapid.IntRange(0, 2).Draw(t, "cfg_symlink") == 2
		c.Order = OrderPlan{Mode: rapid.SampledFrom([]string{"asc", "desc", "shuffle", "rotate"}).Draw(t, "order"), Seed: rapid.Uint64().Draw(t, "order_seed"), Arg: 1}
		c.CfgFifo = rapid.IntRange(0, 3).Draw(t, "cfg_fifo") == 3
		return c
	}
}

// cellC16 is one point of the source product for every setting.
type cellC16 struct {
	flag, env, cfg map[string]bool
	cfgFile        bool // the configuration file exists
}

func (cell cellC16) winner(s string) string {
	switch {
	case cell.flag[s]:
		return "flag"
	case cell.env[s] && s != "today":
		return "env"
	case cell.cfg[s] && cell.cfgFile:
		return "config"
	}
	return "default"
}

func chainBook(marker string, refs int) string {
	// a00 -> a01 -> ... : `refs` references, the last one to an undefined element
	var b strings.Builder
	fmt.Fprintf(&b, "%s:\n  kcal: 1\n\n", marker)
	for i := 0; i < refs; i++ {
		next := fmt.Sprintf("a%02d", i+1)
		if i == refs-1 {
			next = "kcal"
		}
		fmt.Fprintf(&b, "a%02d:\n  %s: 1\n\n", i, next)
	}
	return b.String()
}

// build constructs the world of one cell. logLayout is the layout the log
// files are written in; chainRefs the length of the chain in every book.
func (c *CaseC16) build(cell cellC16, argvTail []string, logLayout string, chainRefs int, locator string) World {
	w := noFaultWorld()
	w.Zone, w.ClockUnixNano = c.Zone, c.Clock
	if c.Order.Mode != "" {
		w.Order = c.Order
	}
	w.Env = map[string]string{}
	eff := map[string]string{}
	for _, s := range c16Settings {
		eff[s] = cell.winner(s)
	}
	day := time.Date(2021, 1, 25, 0, 0, 0, 0, time.UTC).Format(logLayout)
	for _, lvl := range []string{"flag", "env", "config", "default"} {
		w.Files = append(w.Files,
			FileSpec{Path: c16DB[lvl], Kind: "file", Data: chainBook("DB_"+lvl, chainRefs), Plan: ReadPlan{FaultAt: -1}},
			FileSpec{Path: c16Log[lvl], Kind: "file", Data: day + ":\n  LOG_" + lvl + ": 1\n", Plan: ReadPlan{FaultAt: -1}})
	}
	var g []string
	dbFlag, logFlag, dbEnv, logEnv := c16DB["flag"], c16Log["flag"], c16DB["env"], c16Log["env"]
	if c.DefaultSpelling {
		// the value a user types is the default's own spelling; the default-named files then ARE the flag's / env's files
		dbFlag, logFlag, dbEnv, logEnv = c16DB["default"], c16Log["default"], c16DB["default"], c16Log["default"]
	}
	if cell.flag["db"] {
		g = append(g, "-d", dbFlag)
	}
	if cell.flag["log"] {
		g = append(g, "-l", logFlag)
	}
	if cell.flag["datefmt"] {
		g = append(g, "--date-format", c16Layouts["flag"])
	}
	if cell.flag["depth"] {
		g = append(g, "--maxdepth", fmt.Sprint(c16Depths["flag"]))
	}
	if cell.flag["today"] {
		g = append(g, "--today", c16FlagDay.Format(c16Layouts[eff["datefmt"]]))
	}
	if cell.env["db"] {
		w.Env["HR_DATABASE"] = dbEnv
	}
	if cell.env["log"] {
		w.Env["HR_LOGFILE"] = logEnv
	}
	if cell.env["datefmt"] {
		w.Env["HR_DATE_FORMAT"] = c16Layouts["env"]
	}
	if cell.env["depth"] {
		w.Env["HR_MAXDEPTH"] = fmt.Sprint(c16Depths["env"])
	}
	var ini strings.Builder
	ini.WriteString("[Global]\n")
	if cell.cfg["today"] {
		ini.WriteString("Now=" + c16CfgNow + "\n")
	}
	if cell.cfg["db"] {
		ini.WriteString("DbFileName=" + c16DB["config"] + "\n")
	}
	if cell.cfg["log"] {
		ini.WriteString("LogFileName=" + c16Log["config"] + "\n")
	}
	if cell.cfg["datefmt"] {
		ini.WriteString("DateFormat=" + c16Layouts["config"] + "\n")
	}
	if cell.cfg["depth"] {
		ini.WriteString("[Resolver]\nMaxDepth=" + fmt.Sprint(c16Depths["config"]) + "\n")
	}
	cfgPath := w.Home + "/.hranoprovod/config"
	switch locator {
	case "flag":
		cfgPath = "/sim/etc/named.conf"
		g = append([]string{"--config", cfgPath}, g...)
	case "env":
		cfgPath = "/sim/etc/envnamed.conf"
		w.Env["HR_CONFIG"] = cfgPath
	}
	if cell.cfgFile {
		kind := "file"
		if c.CfgSymlink {
			kind = "symlink"
		}
		spec := FileSpec{Path: cfgPath, Kind: kind, Data: ini.String(), Plan: ReadPlan{FaultAt: -1}}
		if c.CfgFifo {
			spec.StatSize = new(int64)
			spec.Plan = ReadPlan{FaultAt: -1, Chunk: "fixed", MaxChunk: 7}
		}
		w.Files = append(w.Files, spec)
	}
	w.Argv = append(append([]string{"hranoprovod-cli"}, g...), argvTail...)
	return w
}

var todayLine = regexp.MustCompile(`(?m)^\s*Today:\s+(\S+)\s*$`)

// Eval enumerates the source product of the focused setting.
func (c *CaseC16) Eval(ob *Obs) []Finding {
	switch c.Kind {
	case "locator":
		return c.evalLocator(ob)
	case "no-database":
		return c.evalNoDatabase(ob)
	}
	var out []Finding
	f := c.Focus
	ob.count("exhaustive_source_products", 1)
	for _, flag := range []bool{false, true} {
		for _, env := range []bool{false, true} {
			for _, cfgState := range []string{"set", "unset", "file-absent"} {
				if f == "today" && env {
					continue // the current date has no environment variable
				}
				if cfgState == "file-absent" && c.Locator != "default" {
					continue // a named file that is absent is an error by itself (checked under "locator")
				}
				cellName := fmt.Sprintf("%s flag=%v env=%v config=%s locator=%s", f, flag, env, cfgState, c.Locator)
				if c.Only != "" && c.Only != cellName {
					continue
				}
				cell := cellC16{flag: copyMap(c.Flag), env: copyMap(c.Env), cfg: copyMap(c.Cfg), cfgFile: cfgState != "file-absent"}
				cell.flag[f], cell.env[f], cell.cfg[f] = flag, env, cfgState == "set"
				win := cell.winner(f)
				effLayout := c16Layouts[cell.winner("datefmt")]
				effDepth := c16Depths[cell.winner("depth")]
				fail := func(msg string) {
					if c.Only == "" {
						c.Only = cellName
					}
					out = append(out, Finding{"C16 wrong-source setting=" + f + " expected=" + win, cellName + ": " + msg})
				}
				ob.nontrivial(hashOf(cell.flag) + hashOf(cell.env) + hashOf(cell.cfg) + cfgState + c.Locator + f)
				if cell.cfgFile {
					ob.probe("config_file_present")
				}
				switch f {
				case "db":
					r := ob.run(c.build(cell, []string{"csv", "database"}, effLayout, 1, c.Locator))
					win := win
					if c.DefaultSpelling && (win == "flag" || win == "env") {
						win = "default" // the winning source names the default-named file
					}
					if r.Failed || !strings.Contains(r.Stdout, "DB_"+win+",") || strings.Count(r.Stdout, "DB_") != 1 {
						fail(fmt.Sprintf("csv database should read the %s book; failed=%v (%s) output %q", win, r.Failed, r.Err, short(r.Stdout, 120)))
					}
				case "log":
					r := ob.run(c.build(cell, []string{"csv", "log"}, effLayout, 1, c.Locator))
					win := win
					if c.DefaultSpelling && (win == "flag" || win == "env") {
						win = "default"
					}
					if r.Failed || !strings.Contains(r.Stdout, "LOG_"+win+",") || strings.Count(r.Stdout, "LOG_") != 1 {
						fail(fmt.Sprintf("csv log should read the %s log; failed=%v (%s) output %q", win, r.Failed, r.Err, short(r.Stdout, 120)))
					}
				case "datefmt":
					for _, lvl := range []string{"flag", "env", "config", "default"} {
						r := ob.run(c.build(cell, []string{"csv", "log"}, c16Layouts[lvl], 1, c.Locator))
						if lvl == win && (r.Failed || !strings.Contains(r.Stdout, "2021-01-25,")) {
							fail(fmt.Sprintf("a log written in the %s layout %q must be readable; failed=%v (%s) output %q", lvl, c16Layouts[lvl], r.Failed, r.Err, short(r.Stdout, 80)))
						}
						if lvl != win && !r.Failed {
							fail(fmt.Sprintf("a log written in the %s layout %q was accepted although the effective layout is %q", lvl, c16Layouts[lvl], c16Layouts[win]))
						}
					}
				case "depth":
					at := ob.run(c.build(cell, []string{"csv", "database-resolved"}, effLayout, effDepth, c.Locator))
					below := ob.run(c.build(cell, []string{"csv", "database-resolved"}, effLayout, effDepth-1, c.Locator))
					if !at.Failed || below.Failed {
						fail(fmt.Sprintf("effective depth should be %d: a chain of %d references failed=%v (must fail), of %d references failed=%v (%s) (must succeed)", effDepth, effDepth, at.Failed, effDepth-1, below.Failed, below.Err))
					}
				case "today":
					r := ob.run(c.build(cell, []string{"stats"}, effLayout, 1, c.Locator))
					m := todayLine.FindStringSubmatch(r.Stdout)
					var want time.Time
					switch win {
					case "flag":
						want = c16FlagDay
					case "config":
						want, _ = time.Parse(time.RFC3339, c16CfgNow)
					default:
						loc := time.UTC
						if st, err := loadZoneForOracle(c.Zone); err == nil {
							loc = st
						}
						want = time.Unix(0, c.Clock).In(loc)
					}
					ok := false
					if m != nil {
						for _, ly := range []string{"2006/01/02", "2006-01-02", "02.01.2006", "01/02/2006"} {
							// the clock ticks on every read, so a run that starts within a few ticks of midnight may show the next day
							for _, wt := range []time.Time{want, want.Add(20 * time.Millisecond)} {
								if got, err := time.Parse(ly, m[1]); err == nil && got.Year() == wt.Year() && got.YearDay() == wt.YearDay() {
									ok = true
								}
							}
						}
					}
					if r.Failed || !ok {
						fail(fmt.Sprintf("stats should show today = %s (from %s); failed=%v (%s) output %q", want.Format("2006-01-02"), win, r.Failed, r.Err, short(r.Stdout, 200)))
					}
				}
			}
		}
	}
	return out
}

func copyMap(m map[string]bool) map[string]bool {
	out := map[string]bool{}
	for _, s := range c16Settings {
		out[s] = m[s]
	}
	return out
}

func loadZoneForOracle(z string) (*time.Location, error) {
	switch {
	case z == "" || z == "UTC":
		return time.UTC, nil
	case strings.HasPrefix(z, "FIXED:"):
		s := z[len("FIXED:"):]
		var h, m int
		fmt.Sscanf(s[1:], "%02d:%02d", &h, &m)
		off := h*3600 + m*60
		if s[0] == '-' {
			off = -off
		}
		return time.FixedZone(s, off), nil
	}
	return time.LoadLocation(z)
}

// evalLocator: how the configuration file is found and whether it must exist.
func (c *CaseC16) evalLocator(ob *Obs) []Finding {
	var out []Finding
	none := map[string]bool{}
	cfgDB := map[string]bool{"db": true}
	try := func(name, locator string, present bool, wantFail bool, wantMarker string) {
		if c.Only != "" && c.Only != name {
			return
		}
		cell := cellC16{flag: copyMap(none), env: copyMap(none), cfg: copyMap(cfgDB), cfgFile: present}
		w := c.build(cell, []string{"csv", "database"}, c16Layouts["default"], 1, locator)
		r := ob.run(w)
		ob.nontrivial("locator/" + name + c.Zone)
		bad := ""
		switch {
		case r.Panic != "":
			bad = "panic " + short(r.Panic, 80)
		case wantFail && !r.Failed:
			bad = fmt.Sprintf("must be an error, but the command succeeded with %q", short(r.Stdout, 80))
		case !wantFail && r.Failed:
			bad = fmt.Sprintf("must succeed, but failed with %q", r.Err)
		case !wantFail && !strings.Contains(r.Stdout, wantMarker+","):
			bad = fmt.Sprintf("should read the book %s, output %q", wantMarker, short(r.Stdout, 80))
		}
		if bad != "" {
			if c.Only == "" {
				c.Only = name
			}
			out = append(out, Finding{"C16 config-locator case=" + name, bad})
		}
	}
	try("default-location-present-is-loaded", "default", true, false, "DB_config")
	try("default-location-absent-is-not-an-error", "default", false, false, "DB_default")
	try("--config-existing-is-loaded", "flag", true, false, "DB_config")
	try("--config-missing-is-an-error", "flag", false, true, "")
	try("HR_CONFIG-existing-is-loaded", "env", true, false, "DB_config")
	try("HR_CONFIG-missing-is-an-error", "env", false, true, "")
	return out
}

// evalNoDatabase: --no-database behaves as an empty recipe book.
func (c *CaseC16) evalNoDatabase(ob *Obs) []Finding {
	book := "pie:\n  kcal: 2\n  fat: 1\nsoup/veg:\n  pie: 0.5\n  carb: 3\n"
	log := "2021/01/25:\n  pie: 2\n  soup/veg: 1\n  tea: 1\n  kcal: 5\n"
	mk := func(noDB bool) World {
		w := noFaultWorld()
		w.Zone, w.ClockUnixNano = c.Zone, c.Clock
		if c.Order.Mode != "" {
			w.Order = c.Order
		}
		w.Env = map[string]string{}
		w.Files = []FileSpec{
			{Path: "log.yaml", Kind: "file", Data: log, Plan: ReadPlan{FaultAt: -1}},
			{Path: "/sim/empty.yaml", Kind: "file", Data: "", Plan: ReadPlan{FaultAt: -1}},
			{Path: "/sim/named.yaml", Kind: "file", Data: book, Plan: ReadPlan{FaultAt: -1}},
		}
		if c.NDFoodYaml {
			w.Files = append(w.Files, FileSpec{Path: "food.yaml", Kind: "file", Data: book, Plan: ReadPlan{FaultAt: -1}})
		}
		var g []string
		if noDB && c.NDFalse {
			// an explicit false: the book named below must be read as if the switch were absent
			g = append(g, "--no-database=false")
			switch c.NDNamedBy {
			case "flag":
				g = append(g, "-d", "/sim/named.yaml")
			case "env":
				w.Env["HR_DATABASE"] = "/sim/named.yaml"
			case "config":
				w.Files = append(w.Files, FileSpec{Path: w.Home + "/.hranoprovod/config", Kind: "file", Data: "[Global]\nDbFileName=/sim/named.yaml\n", Plan: ReadPlan{FaultAt: -1}})
			default:
				g = append(g, "-d", "/sim/named.yaml")
			}
		} else if noDB {
			g = append(g, "--no-database")
			switch c.NDNamedBy {
			case "flag":
				g = append(g, "-d", "/sim/named.yaml")
			case "env":
				w.Env["HR_DATABASE"] = "/sim/named.yaml"
			case "config":
				w.Files = append(w.Files, FileSpec{Path: w.Home + "/.hranoprovod/config", Kind: "file", Data: "[Global]\nDbFileName=/sim/named.yaml\n", Plan: ReadPlan{FaultAt: -1}})
			}
		} else if c.NDFalse {
			g = append(g, "-d", "/sim/named.yaml") // the twin: the same book, no switch at all
		} else {
			g = append(g, "-d", "/sim/empty.yaml")
		}
		g = append(g, "--no-color")
		iv := Invocation{Shape: c.NDShape, Globals: g, El: "kcal", Date: "2021/01/25"}
		w.Argv = iv.Argv()
		return w
	}
	with, empty := ob.run(mk(true)), ob.run(mk(false))
	ob.nontrivial(fmt.Sprintf("nodb/%s/%v/%s", c.NDShape, c.NDFoodYaml, c.NDNamedBy))
	if empty.Panic != "" || empty.Failed {
		return nil
	}
	if with.Panic != "" {
		return []Finding{{"C16 no-database-crashes cmd=" + c.NDShape, fmt.Sprintf("--no-database: %s (with an empty book the command works)", short(with.Panic, 120))}}
	}
	same := with.Failed == empty.Failed && with.Stdout == empty.Stdout
	if c.NDShape == "stats" {
		// stats prints the file name itself; only the record count is comparable
		re := regexp.MustCompile(`Database records:\s+(\d+)`)
		a, b := re.FindStringSubmatch(with.Stdout), re.FindStringSubmatch(empty.Stdout)
		same = !with.Failed && a != nil && b != nil && a[1] == b[1]
	}
	if !same && c.NDFalse {
		return []Finding{{"C16 no-database-false-is-not-absent cmd=" + c.NDShape,
			fmt.Sprintf("--no-database=false with the book named by %q differs from the same command without the switch: failed=%v (%s) vs %v; %s", c.NDNamedBy, with.Failed, with.Err, empty.Failed, firstDiff(empty.Stdout, with.Stdout))}}
	}
	if !same {
		return []Finding{{"C16 no-database-is-not-an-empty-book cmd=" + c.NDShape,
			fmt.Sprintf("food.yaml in cwd=%v, book also named by %q: --no-database failed=%v (%s); with an empty book failed=%v; %s", c.NDFoodYaml, c.NDNamedBy, with.Failed, with.Err, empty.Failed, firstDiff(empty.Stdout, with.Stdout))}}
	}
	return nil
}
