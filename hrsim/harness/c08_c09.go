package harness

import (
	"fmt"
	"regexp"
	"strconv"
	"strings"
	"unicode"

	"github.com/aquilax/hranoprovod-cli/v3/verifsim"
	"pgregory.net/rapid"
)

// ---------------------------------------------------------------- C09

// CaseC09 : malformed entries are reported with their exact line by lint and
// every command. The simulator plants the corruptions into a well-formed file,
// so it knows their physical line numbers and raw text by construction.
type CaseC09 struct {
	Base   CLIBase    `json:"base"`
	Target string     `json:"target"` // "log" or "db": which stored file is corrupted
	Plants []PlantC09 `json:"plants"` // in drawing order; positions refer to the line list after earlier plants
	Shapes []string   `json:"shapes"`
	// how the corrupted file is delivered to the program (line accounting must not depend on it)
	Chunk     string `json:"chunk"`
	ChunkSeed uint64 `json:"chunk_seed"`
	MaxChunk  int    `json:"max_chunk"`
}

// PlantC09 is one planted malformed line.
type PlantC09 struct {
	At   int    `json:"at"`   // inserted before this line index (0-based) of the current text
	Text string `json:"text"` // raw line without the line terminator
	// Legal: the line is well formed (a very long comment or note): it only has to be counted as one line
	Legal bool `json:"legal,omitempty"`
}

var plantNames = []string{"oats", "x", "сирене", "rice/white", "a_b", "milk/2%", "50%s"}
var plantBadValues = []string{"abc", "12g", "1,5", "1..2", "--", "1e", "0x", "twelve", "2%", "%d", "+", "+.", ".", "e5", "+-1", "1_0_", "0b", "١٢"}

func genC09(thorough bool) func(t *rapid.T) Case {
	return func(t *rapid.T) Case {
		c := &CaseC09{}
		c.Target = rapid.SampledFrom([]string{"log", "db"}).Draw(t, "target")
		bo := baseOpts{shapes: []string{"reg"}, book: BookOpts{MaxRecipes: 5}, log: LogOpts{MaxDays: 5, MinDays: 1}}
		if rapid.IntRange(0, 4).Draw(t, "big_file") == 4 {
			// files larger than the scanner's 4096-byte initial buffer
			bo.book.MaxRecipes, bo.log.MinDays, bo.log.MaxDays, bo.log.Window = 14, 40, 90, 120
		}
		c.Base = genCLIBase(t, bo)
		if len(c.Base.Book) == 0 {
			c.Base.Book = []Block{{Head: "pie", Items: []Item{{"kcal", "2"}}}}
		}
		c.Chunk = rapid.SampledFrom([]string{"whole", "one", "seeded", "fixed"}).Draw(t, "chunk")
		c.ChunkSeed = rapid.Uint64().Draw(t, "chunk_seed")
		c.MaxChunk = rapid.SampledFrom([]int{2, 3, 7, 16, 64, 4095, 4096}).Draw(t, "max_chunk")
		blocks, ly := c.Base.Log, c.Base.LogLayout
		if c.Target == "db" {
			blocks, ly = c.Base.Book, c.Base.BookLayout
		}
		lines := splitLines(render(blocks, ly), ly.EOL)
		first := firstHeadingLine(lines)
		if rapid.IntRange(0, 3).Draw(t, "long_legal_line") == 3 {
			// a legal line longer than the scanner's 4096-byte initial buffer, somewhere before the end
			n := rapid.SampledFrom([]int{4096, 5000, 8192, 9000, 20000}).Draw(t, "long_legal_len")
			at := rapid.IntRange(first+1, len(lines)).Draw(t, "long_legal_at")
			text := "# " + strings.Repeat("L", n-2)
			if rapid.Bool().Draw(t, "long_legal_note") {
				text = "  # note: " + strings.Repeat("N", n)
			}
			c.Plants = append(c.Plants, PlantC09{At: at, Text: text, Legal: true})
			lines = append(lines[:at:at], append([]string{text}, lines[at:]...)...)
		}
		k := rapid.IntRange(0, 3).Draw(t, "n_plants")
		for i := 0; i < k; i++ {
			at := rapid.IntRange(first+1, len(lines)).Draw(t, fmt.Sprintf("p%d_at", i))
			name := rapid.SampledFrom(plantNames).Draw(t, fmt.Sprintf("p%d_name", i))
			indent := rapid.SampledFrom([]string{"  ", "\t", "  - ", "    "}).Draw(t, fmt.Sprintf("p%d_indent", i))
			var text string
			if rapid.Bool().Draw(t, fmt.Sprintf("p%d_class", i)) {
				// (a) no blank before the value
				text = indent + name + ":" + rapid.SampledFrom([]string{"12", "0.5", "-3"}).Draw(t, fmt.Sprintf("p%d_v", i))
			} else {
				// (b) the value is not a number
				text = indent + name + ": " + rapid.SampledFrom(plantBadValues).Draw(t, fmt.Sprintf("p%d_bad", i))
			}
			c.Plants = append(c.Plants, PlantC09{At: at, Text: text})
			lines = append(lines[:at:at], append([]string{text}, lines[at:]...)...)
		}
		if c.Target == "log" {
			c.Shapes = shapeNames(func(s Shape) bool { return s.ReadsLog && !strings.HasPrefix(s.Name, "lint") })
		} else {
			c.Shapes = shapeNames(func(s Shape) bool { return s.ReadsDB && !strings.HasPrefix(s.Name, "lint") })
		}
		return c
	}
}

func splitLines(text, eol string) []string {
	if text == "" {
		return nil
	}
	ls := strings.Split(text, eol)
	if ls[len(ls)-1] == "" {
		ls = ls[:len(ls)-1]
	}
	return ls
}

func firstHeadingLine(lines []string) int {
	for i, l := range lines {
		if l != "" && l[0] != ' ' && l[0] != '\t' && l[0] != '-' && l[0] != '#' && strings.Trim(l, "\t \n:\"-") != "" {
			return i
		}
	}
	return len(lines) - 1
}

// corrupted returns the text of the target file with the plants applied, and
// the planted lines in file order with their 1-based line numbers.
func (c *CaseC09) corrupted() (string, []int, []string) {
	blocks, ly := c.Base.Log, c.Base.LogLayout
	if c.Target == "db" {
		blocks, ly = c.Base.Book, c.Base.BookLayout
	}
	lines := splitLines(render(blocks, ly), ly.EOL)
	planted := make([]bool, len(lines))
	for _, p := range c.Plants {
		at := p.At
		if at > len(lines) {
			at = len(lines)
		}
		if f := firstHeadingLine(lines); at <= f {
			at = f + 1 // an indented line before any heading belongs to no record
		}
		lines = append(lines[:at:at], append([]string{p.Text}, lines[at:]...)...)
		planted = append(planted[:at:at], append([]bool{!p.Legal}, planted[at:]...)...)
	}
	var nums []int
	var texts []string
	for i, isP := range planted {
		if isP {
			nums = append(nums, i+1)
			texts = append(texts, lines[i])
		}
	}
	return strings.Join(lines, ly.EOL) + ly.EOL, nums, texts
}

func mentionsLine(msg string, n int, text string) bool {
	if !strings.Contains(msg, text) {
		return false
	}
	re := regexp.MustCompile(`(^|[^0-9])` + strconv.Itoa(n) + `([^0-9]|$)`)
	// the number must appear outside the quoted line itself
	rest := strings.Replace(msg, text, "", 1)
	return re.MatchString(rest)
}

// Eval runs every command that reads the corrupted file, and lint.
func (c *CaseC09) Eval(ob *Obs) []Finding {
	text, nums, texts := c.corrupted()
	k := len(nums)
	path := "log.yaml"
	if c.Target == "db" {
		path = "food.yaml"
	}
	var out []Finding
	mkWorld := func(iv Invocation) World {
		b := c.Base
		b.Inv = iv
		w := b.world()
		fi := fileIdx(&w, path)
		w.Files[fi].Data = text
		chunk := c.Chunk
		if chunk == "one" && len(text) > 6000 {
			chunk = "seeded" // byte-by-byte delivery of a long file costs more than it finds
		}
		w.Files[fi].Plan = ReadPlan{Chunk: chunk, ChunkSeed: c.ChunkSeed, MaxChunk: c.MaxChunk, FaultAt: -1}
		return w
	}
	ob.nontrivial(hashOf(c.Base) + hashOf(c.Plants))
	if k >= 2 {
		ob.probe("two_or_more_planted_lines")
	}
	if k == 0 {
		ob.probe("no_planted_line")
	}
	if len(text) > 4096 {
		ob.probe("file_gt_4096")
	}
	var firstMsg string
	for _, sh := range c.Shapes {
		iv := c.Base.Inv
		iv.Shape = sh
		r := ob.run(mkWorld(iv))
		if r.Panic != "" {
			if k > 0 {
				out = append(out, Finding{"C09 crash-instead-of-error cmd=" + sh + " file=" + c.Target, fmt.Sprintf("malformed line %d %q: panic %s", nums[0], texts[0], short(r.Panic, 100))})
			}
			continue
		}
		if k == 0 {
			continue // well-formed: nothing to report; other failures are not this property's business
		}
		if !r.Failed {
			out = append(out, Finding{"C09 malformed-file-accepted cmd=" + sh + " file=" + c.Target, fmt.Sprintf("line %d %q is malformed but the command succeeded", nums[0], texts[0])})
			continue
		}
		if !mentionsLine(r.Err, nums[0], texts[0]) {
			out = append(out, Finding{"C09 error-does-not-name-first-bad-line cmd=" + sh + " file=" + c.Target, fmt.Sprintf("first malformed line is %d %q; error was %q", nums[0], texts[0], short(r.Err, 200))})
			continue
		}
		if firstMsg == "" {
			firstMsg = r.Err
			// real-binary arm: what the user reads is what main() prints. A sample of the worlds is run by the
			// uninstrumented binary on real files; its standard error must quote the same line and number.
			if realBin != "" && verifsim.HashString(hashOf(c.Plants)+sh)%8 == 0 {
				rr := runReal(mkWorld(iv), "")
				ob.count("real_binary_runs", 1)
				if !rr.failed || !mentionsLine(rr.stderr, nums[0], texts[0]) {
					out = append(out, Finding{"C09 real-binary-error-does-not-name-first-bad-line cmd=" + sh + " file=" + c.Target,
						fmt.Sprintf("first malformed line is %d %q; the real binary exited non-zero=%v and wrote %q", nums[0], texts[0], rr.failed, short(rr.stderr, 300))})
				}
			}
		}
	}
	for _, silent := range []bool{false, true} {
		iv := c.Base.Inv
		iv.Shape = "lint log"
		if c.Target == "db" {
			iv.Shape = "lint db"
		}
		if silent {
			iv.Locals = []string{"--silent"}
		}
		name := "lint"
		if silent {
			name = "lint --silent"
		}
		r := ob.run(mkWorld(iv))
		if r.Panic != "" {
			out = append(out, Finding{"C09 lint-crashes", short(r.Panic, 100)})
			continue
		}
		lines := splitLines(r.Stdout, "\n")
		hasNone := false
		var reports []string
		for _, l := range lines {
			if strings.TrimSpace(l) == "No errors found" {
				hasNone = true
			} else {
				reports = append(reports, l)
			}
		}
		wantNone := k == 0 && !silent
		if hasNone != wantNone {
			out = append(out, Finding{"C09 lint-no-errors-found-wrong cmd=" + name, fmt.Sprintf("%d malformed lines, silent=%v: 'No errors found' printed=%v; output %q", k, silent, hasNone, short(r.Stdout, 300))})
		}
		if len(reports) != k {
			out = append(out, Finding{"C09 lint-report-count cmd=" + name, fmt.Sprintf("%d malformed lines planted, %d lines reported: %q", k, len(reports), short(r.Stdout, 300))})
			continue
		}
		for i := range reports {
			if !mentionsLine(reports[i], nums[i], texts[i]) {
				out = append(out, Finding{"C09 lint-wrong-line cmd=" + name, fmt.Sprintf("report %d is %q, expected line %d %q", i+1, reports[i], nums[i], texts[i])})
				break
			}
		}
		if k > 0 && firstMsg != "" && reports[0] != firstMsg {
			out = append(out, Finding{"C09 lint-message-differs-from-commands cmd=" + name, fmt.Sprintf("lint: %q commands: %q", reports[0], firstMsg)})
		}
	}
	return out
}

// ---------------------------------------------------------------- C08

// CaseC08 : no input makes a command crash or hang. Stored-data faults (torn
// save, bit rot, garbage) are injected into well-formed worlds, combined with
// read and write faults, for every command shape, under monitors.
type CaseC08 struct {
	Base      CLIBase  `json:"base"`
	BookMut   []MutC08 `json:"book_mut"`
	LogMut    []MutC08 `json:"log_mut"`
	ExtraArgs []string `json:"extra_globals"`
	// Seq, when set, makes the case a recorded history: the worlds this process executed last, replayed
	// in order. A crash that needs state left behind by earlier runs only reproduces that way.
	Seq       []World   `json:"seq,omitempty"`
	ReadFault int       `json:"read_fault"` // offset in the log, -1 none
	SinkFail  int       `json:"sink_fail"`  // -1 none
	Order     OrderPlan `json:"order"`
	// StatLie: what Stat says about the size of the log and the book differs from what reading them delivers
	// ("zero": a FIFO; "more": a file truncated after it was opened, a sysfs attribute; "less": a file still growing)
	StatLie string `json:"stat_lie,omitempty"`
}

// MutC08 is one stored-data fault.
type MutC08 struct {
	Op   string `json:"op"`
	Pos  int    `json:"pos"`  // position as a fraction of the length, in 1/1000
	Data string `json:"data"` // inserted / replacing bytes
}

var garbagePool = []string{"\x00", "\xff\xfe", "\r", ":", "::", " : ", "-", "- -", "\"", "#", "\t", "NaN", "Inf", "-Inf", "1e999", "0x1p-2", "--1", "+", ".", "1_0", "\n\n", "\n  ", "\n-\n", "\n:\n", "\n\"\n", " \n", "é", "\xe2\x82", "2021/13/45:\n", "not a date:\n", "  orphan: 1\n"}

func genMut(t *rapid.T, label string) []MutC08 {
	n := rapid.IntRange(0, 4).Draw(t, label+"_n")
	var out []MutC08
	for i := 0; i < n; i++ {
		l := fmt.Sprintf("%s%d", label, i)
		m := MutC08{
			Op:  rapid.SampledFrom([]string{"insert", "truncate", "flip", "delete", "number", "dropsep", "prepend", "empty", "longline", "commentsonly", "random"}).Draw(t, l+"_op"),
			Pos: rapid.IntRange(0, 1000).Draw(t, l+"_pos"),
		}
		m.Data = rapid.SampledFrom(garbagePool).Draw(t, l+"_data")
		out = append(out, m)
	}
	return out
}

var numberRe = regexp.MustCompile(`-?[0-9]+(\.[0-9]+)?(e[0-9]+)?`)

func applyMut(s string, ms []MutC08) string {
	for _, m := range ms {
		at := 0
		if len(s) > 0 {
			at = m.Pos * len(s) / 1000
			if at > len(s) {
				at = len(s)
			}
		}
		switch m.Op {
		case "insert":
			s = s[:at] + m.Data + s[at:]
		case "truncate":
			s = s[:at]
		case "flip":
			if at < len(s) {
				b := []byte(s)
				b[at] ^= 1 << uint(m.Pos%8)
				s = string(b)
			}
		case "delete":
			end := at + 1 + m.Pos%5
			if end > len(s) {
				end = len(s)
			}
			s = s[:at] + s[end:]
		case "number":
			locs := numberRe.FindAllStringIndex(s, -1)
			if len(locs) > 0 {
				l := locs[m.Pos%len(locs)]
				s = s[:l[0]] + m.Data + s[l[1]:]
			}
		case "dropsep":
			if i := strings.Index(s[at:], ": "); i >= 0 {
				s = s[:at+i] + ":" + s[at+i+2:]
			}
		case "prepend":
			s = "  orphan entry: 1\n" + m.Data + s
		case "empty":
			s = ""
		case "longline":
			s = s[:at] + "\n  " + strings.Repeat("L", 70000) + ": 1\n" + s[at:]
		case "commentsonly":
			s = "# only a comment\n#\n"
		case "random": // arbitrary bytes
			r := verifsim.NewRng(uint64(m.Pos)*2654435761 + uint64(len(m.Data)))
			b := make([]byte, m.Pos%257)
			for i := range b {
				switch x := r.Intn(10); {
				case x < 3:
					b[i] = "\n\t :-#\""[r.Intn(7)]
				case x < 6:
					b[i] = byte('0' + r.Intn(10))
				default:
					b[i] = byte(r.Intn(256))
				}
			}
			s = string(b)
		}
	}
	return s
}

func genC08(thorough bool) func(t *rapid.T) Case {
	names := shapeNames(nil)
	return func(t *rapid.T) Case {
		c := &CaseC08{ReadFault: -1, SinkFail: -1}
		c.Base = genCLIBase(t, baseOpts{shapes: names, book: BookOpts{MaxRecipes: 6, Cycles: rapid.IntRange(0, 3).Draw(t, "cycles") == 3},
			log: LogOpts{MaxDays: 5, LongDays: rapid.IntRange(0, 7).Draw(t, "long_days") == 7}, hugeFiles: true, big: true})
		c.BookMut = genMut(t, "bm")
		c.LogMut = genMut(t, "lm")
		if rapid.IntRange(0, 2).Draw(t, "extra_locals") == 2 {
			c.Base.Inv.Locals = genExtraLocals(t, c.Base.Inv.Shape)
		}
		switch rapid.IntRange(0, 9).Draw(t, "flagfault") {
		case 5:
			c.ExtraArgs = []string{"--maxdepth", strconv.Itoa(rapid.SampledFrom([]int{0, 1, 2, -1, 50, 1000, 20000}).Draw(t, "maxdepth"))}
		case 6:
			c.Base.Inv.Food = rapid.SampledFrom([]string{"(", "[a-", "*", "\\", "(?P<x>", ""}).Draw(t, "bad_regex")
		case 7:
			c.Base.Inv.El = rapid.SampledFrom([]string{"", " ", "no such element", "\x00", swapCase(c.Base.Inv.El), strings.ToUpper(c.Base.Inv.El)}).Draw(t, "odd_el")
		case 8:
			c.Base.Inv.Date = rapid.SampledFrom([]string{"", "never", "2021/99/99", "tomorrow", "last week"}).Draw(t, "odd_date")
		case 9:
			c.ExtraArgs = rapid.SampledFrom([][]string{{"-b", "garbage"}, {"--date-format", ""}, {"--date-format", "x"}, {"--today", "x"}, {"-e", "2021/01/22", "-b", "2021/01/25"}, {"--no-database"}, {"--internal-template-name", "nope"}}).Draw(t, "odd_flags")
		}
		if rapid.IntRange(0, 4).Draw(t, "with_read_fault") == 4 {
			c.ReadFault = rapid.IntRange(0, 300).Draw(t, "read_fault")
		}
		if rapid.IntRange(0, 4).Draw(t, "with_sink_fault") == 4 {
			c.SinkFail = rapid.SampledFrom([]int{0, 1, 7, 60, 150, 299, 4095, 4096, 4097, 8192, 12000}).Draw(t, "sink_fail")
		}
		c.Order = OrderPlan{Mode: rapid.SampledFrom([]string{"asc", "desc", "shuffle"}).Draw(t, "order"), Seed: rapid.Uint64().Draw(t, "order_seed")}
		c.StatLie = rapid.SampledFrom([]string{"", "", "", "", "", "zero", "more", "less"}).Draw(t, "stat_lie")
		return c
	}
}

func swapCase(s string) string {
	r := []rune(s)
	for i, c := range r {
		switch {
		case unicode.IsUpper(c):
			r[i] = unicode.ToLower(c)
		case unicode.IsLower(c):
			r[i] = unicode.ToUpper(c)
		}
	}
	return string(r)
}

func flakyC08() Case {
	return &CaseC08{ReadFault: -1, SinkFail: -1, Seq: append([]World{}, recentWorlds...)}
}

var frameRe = regexp.MustCompile(`github\.com/aquilax/hranoprovod-cli/[^\s(]+`)

// crashSite names the innermost frame of the program's own code.
func crashSite(stack string) string {
	for _, ln := range strings.Split(stack, "\n") {
		if strings.Contains(ln, "verifsim") || strings.Contains(ln, "hrsim/harness") {
			continue
		}
		if m := frameRe.FindString(ln); m != "" {
			m = strings.TrimPrefix(m, "github.com/aquilax/hranoprovod-cli/")
			m = strings.Replace(m, "cmd/hranoprovod-cli/v3/hrapp", "main", 1)
			if i := strings.Index(m, ".func"); i > 0 {
				m = m[:i]
			}
			return m
		}
	}
	return "unknown"
}

// Eval runs one corrupted world under the crash monitor. (The hang monitor is
// the worker watchdog: a worker that does not come back is attributed to the
// case it was evaluating.)
func (c *CaseC08) Eval(ob *Obs) []Finding {
	if len(c.Seq) > 0 {
		for i, w := range c.Seq {
			if r := ob.run(w); r.Panic != "" {
				return []Finding{{"C08 panic-depends-on-earlier-runs at=" + crashSite(r.Stack), fmt.Sprintf("run %d of %d in one process (%q): %s\n%s", i+1, len(c.Seq), w.Argv, short(r.Panic, 200), short(r.Stack, 1200))}}
			}
		}
		return nil
	}
	b := c.Base
	b.Inv.Globals = append(append([]string{}, b.Inv.Globals...), c.ExtraArgs...)
	w := b.world()
	bi, li := fileIdx(&w, "food.yaml"), fileIdx(&w, "log.yaml")
	w.Files[bi].Data = applyMut(w.Files[bi].Data, c.BookMut)
	w.Files[li].Data = applyMut(w.Files[li].Data, c.LogMut)
	w.Order = c.Order
	if c.StatLie != "" {
		ob.planned("stat_size_" + c.StatLie)
		ob.fired("stat_size_" + c.StatLie)
	}
	for _, i := range []int{bi, li} {
		n := int64(len(w.Files[i].Data))
		switch c.StatLie {
		case "zero":
			w.Files[i].StatSize = new(int64)
		case "more":
			n += 1 + n/2
			w.Files[i].StatSize = &n
		case "less":
			n /= 2
			w.Files[i].StatSize = &n
		}
	}
	if c.ReadFault >= 0 {
		w.Files[li].Plan.FaultAt = c.ReadFault
		w.Files[li].Plan.FaultKind = "EIO"
		ob.planned("read_EIO")
	}
	if c.SinkFail >= 0 {
		w.Sink = SinkPlan{FailAt: c.SinkFail, Kind: "ENOSPC"}
		ob.planned("sink_ENOSPC")
	}
	for _, m := range append(append([]MutC08{}, c.BookMut...), c.LogMut...) {
		ob.planned("stored_" + m.Op)
		ob.fired("stored_" + m.Op)
	}
	r := ob.run(w)
	if r.Stats.ReadFaultsFired > 0 {
		ob.fired("read_EIO")
	}
	if r.Stats.SinkFaultFired {
		ob.fired("sink_ENOSPC")
	}
	if len(c.BookMut)+len(c.LogMut) > 0 {
		ob.nontrivial(hashOf(w.Files) + hashOf(w.Argv))
	}
	if r.Failed {
		ob.probe("command_failed_cleanly")
	}
	if strings.HasPrefix(r.Panic, "hang:") {
		return []Finding{{"C08 hang cmd=" + c.Base.Inv.Shape, short(r.Panic, 300)}}
	}
	if r.Panic != "" {
		site := crashSite(r.Stack)
		return []Finding{{"C08 panic cmd=" + c.Base.Inv.Shape + " at=" + site, fmt.Sprintf("%s\n%s", short(r.Panic, 200), short(r.Stack, 1500))}}
	}
	return nil
}

func (c *CaseC08) base() *CLIBase  { return &c.Base }
func (c *CaseC08) clone() baseCase { d := *c; return &d }
