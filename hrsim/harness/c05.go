package harness

import (
	"fmt"

	"pgregory.net/rapid"
)

// CaseC05 : every report is a pure function of its inputs. One base world and
// variants that differ only in things the property says must not matter: the
// map-order schedule, the wall clock (when --today is given), the way the
// files are delivered.
type CaseC05 struct {
	Base     CLIBase      `json:"base"`
	Today    string       `json:"today,omitempty"`
	Begin    string       `json:"begin,omitempty"`
	End      string       `json:"end,omitempty"`
	MaxDepth int          `json:"maxdepth,omitempty"`
	Variants []VariantC05 `json:"variants"`
}

// VariantC05 is one perturbation of the base world.
type VariantC05 struct {
	Order      OrderPlan `json:"order"`
	ClockShift int64     `json:"clock_shift_ns,omitempty"`
	Chunk      string    `json:"chunk,omitempty"`
	ChunkSeed  uint64    `json:"chunk_seed,omitempty"`
}

// summingShapes: the commands whose output is a sum over several records, recipes or categories
var summingShapes = []string{"reg", "reg -s", "reg -s -g", "reg --totals-only", "bal", "bal -c", "bal -s", "bal -s -c", "summary", "report totals", "report element-total", "csv database-resolved"}

func genFlatSum(t *rapid.T) (book, log []Block) {
	cats := []string{"veg", "bread", "cheese", "fruit", "meat", "drink", "nuts"}
	k := rapid.IntRange(3, 6).Draw(t, "flat_k")
	el := rapid.SampledFrom(elementPool).Draw(t, "flat_el")
	cancel := rapid.IntRange(0, 2).Draw(t, "flat_cancel") == 2
	day := Block{Head: baseDay.Format(defaultDateLayout)}
	for i := 0; i < k; i++ {
		name := cats[i] + "/" + rapid.SampledFrom([]string{"100g", "piece", "x/y"}).Draw(t, fmt.Sprintf("flat_n%d", i))
		q := rapid.SampledFrom([]string{"0.105", "0.56", "1.93", "0.045", "0.135", "0.255", "0.015", "1.005", "2.675"}).Draw(t, fmt.Sprintf("flat_q%d", i))
		if cancel {
			q = rapid.SampledFrom([]string{"1e16", "-1e16", "1", "0.3", "1e15", "-1e15"}).Draw(t, fmt.Sprintf("flat_c%d", i))
		}
		book = append(book, Block{Head: name, Items: []Item{{el, q}, {"kcal", "10"}}})
		day.Items = append(day.Items, Item{name, rapid.SampledFrom([]string{"1", "1", "3", "0.1"}).Draw(t, fmt.Sprintf("flat_l%d", i))})
	}
	log = []Block{day}
	if rapid.Bool().Draw(t, "flat_two_days") {
		d2 := Block{Head: baseDay.AddDate(0, 0, 1).Format(defaultDateLayout), Items: append([]Item{}, day.Items[:k-1]...)}
		log = append(log, d2)
	}
	return book, log
}

func genC05(thorough bool) func(t *rapid.T) Case {
	names := shapeNames(nil)
	return func(t *rapid.T) Case {
		c := &CaseC05{}
		bo := BookOpts{MaxRecipes: 8, Cycles: rapid.IntRange(0, 9).Draw(t, "cycles") == 9}
		if rapid.IntRange(0, 4).Draw(t, "deep") == 4 {
			bo.DeepChain = rapid.IntRange(2, 12).Draw(t, "deep_chain")
			bo.MaxRecipes = 14
		}
		lo := LogOpts{MaxDays: 6}
		if rapid.IntRange(0, 4).Draw(t, "rounding_boundary") == 4 {
			bo.Boundary, lo.Boundary = true, true
		}
		switch rapid.IntRange(0, 15).Draw(t, "rare_shape") {
		case 13:
			bo.Extreme, lo.Extreme = true, true
		case 14, 15:
			lo.LongDays = true
		}
		use := names
		if (bo.Boundary || bo.Extreme) && rapid.Bool().Draw(t, "summing_shape") {
			// half of the rounding-boundary and extreme-value cases go to the commands that add numbers up
			use = summingShapes
		}
		c.Base = genCLIBase(t, baseOpts{shapes: use, book: bo, log: lo, longNames: true, hugeFiles: true})
		if rapid.IntRange(0, 9).Draw(t, "flat_sum") == 9 {
			// a handful of foods in as many top-level categories, all carrying one element, with amounts whose
			// sum lies on a rounding boundary or cancels: any total computed by walking a map is order-dependent here
			c.Base.Book, c.Base.Log = genFlatSum(t)
			c.Base.Inv = genInvocation(t, summingShapes, c.Base.Book, c.Base.Log)
		}
		if n := len(c.Base.Log); n > 0 && rapid.IntRange(0, 7).Draw(t, "malformed_entry") == 7 {
			// a log that stops parsing somewhere in the middle: what was printed up to there, the message and
			// the status are as repeatable as a complete report
			d := rapid.IntRange(0, n-1).Draw(t, "malformed_day")
			if k := len(c.Base.Log[d].Items); k > 0 {
				c.Base.Log[d].Items[rapid.IntRange(0, k-1).Draw(t, "malformed_item")].Qty = "1x"
			}
		}
		if rapid.IntRange(0, 3).Draw(t, "extra_locals") == 3 {
			c.Base.Inv.Locals = genExtraLocals(t, c.Base.Inv.Shape)
		}
		if rapid.Bool().Draw(t, "with_today") {
			c.Today = baseDay.AddDate(0, 0, rapid.IntRange(0, 12).Draw(t, "today_off")).Format(defaultDateLayout)
		}
		kw := []string{"", "", "today", "yesterday", "last7", "last30", "2021/01/22", "2021/01/25"}
		c.Begin = rapid.SampledFrom(kw).Draw(t, "begin")
		c.End = rapid.SampledFrom(kw).Draw(t, "end")
		if rapid.IntRange(0, 3).Draw(t, "set_maxdepth") == 3 {
			c.MaxDepth = rapid.IntRange(1, 12).Draw(t, "maxdepth")
		}
		nv := rapid.IntRange(1, 4).Draw(t, "n_variants")
		c.Variants = []VariantC05{{Order: OrderPlan{Mode: "desc"}}}
		for i := 0; i < nv; i++ {
			v := VariantC05{}
			v.Order.Mode = rapid.SampledFrom([]string{"desc", "rotate", "shuffle", "swap", "asc"}).Draw(t, fmt.Sprintf("v%d_mode", i))
			v.Order.Seed = rapid.Uint64().Draw(t, fmt.Sprintf("v%d_seed", i))
			v.Order.Arg = rapid.IntRange(0, 7).Draw(t, fmt.Sprintf("v%d_arg", i))
			if c.Today != "" && rapid.Bool().Draw(t, fmt.Sprintf("v%d_clock", i)) {
				v.ClockShift = rapid.Int64Range(-400*24*3600e9, 400*24*3600e9).Draw(t, fmt.Sprintf("v%d_shift", i))
			}
			if rapid.IntRange(0, 3).Draw(t, fmt.Sprintf("v%d_chunked", i)) == 3 {
				v.Chunk = rapid.SampledFrom([]string{"one", "seeded"}).Draw(t, fmt.Sprintf("v%d_chunk", i))
				v.ChunkSeed = rapid.Uint64().Draw(t, fmt.Sprintf("v%d_chunkseed", i))
			}
			c.Variants = append(c.Variants, v)
		}
		return c
	}
}

func (c *CaseC05) baseWorld() World {
	b := c.Base
	g := append([]string{}, b.Inv.Globals...)
	if c.Today != "" {
		g = append(g, "--today", c.Today)
	}
	if c.Begin != "" {
		g = append(g, "-b", c.Begin)
	}
	if c.End != "" {
		g = append(g, "-e", c.End)
	}
	if c.MaxDepth > 0 {
		g = append(g, "--maxdepth", fmt.Sprint(c.MaxDepth))
	}
	b.Inv.Globals = g
	return b.world()
}

// Eval compares every variant with the base run.
func (c *CaseC05) Eval(ob *Obs) []Finding {
	w := c.baseWorld()
	w.Order = OrderPlan{Mode: "asc"} // the base run; every variant brings its own schedule
	shape := c.Base.Inv.Shape
	base := ob.run(w)
	var out []Finding
	ch := hashOf(c.Base)
	for i, v := range c.Variants {
		vw := cloneWorld(w)
		vw.Order = v.Order
		vw.ClockUnixNano += v.ClockShift
		if v.Chunk != "" {
			for j := range vw.Files {
				vw.Files[j].Plan = ReadPlan{Chunk: v.Chunk, ChunkSeed: v.ChunkSeed, MaxChunk: 9, FaultAt: -1}
				if v.ChunkSeed%2 == 1 {
					vw.Files[j].StatSize = new(int64) // a FIFO: the size Stat reports says nothing
				}
			}
		}
		r := ob.run(vw)
		if r.Stats.OrderNontrivial > 0 && v.Order.Mode != "asc" {
			ob.nontrivial(fmt.Sprintf("%s/%d/%s", ch, i, hashOf(v)))
		}
		what := "order"
		if v.Order.Mode == "asc" {
			what = "clock-or-delivery"
		}
		if (r.Panic != "") != (base.Panic != "") {
			out = append(out, Finding{"C05 " + what + "-dependent-crash cmd=" + shape, fmt.Sprintf("variant %d (%+v): panic %q vs %q", i, v, base.Panic, r.Panic)})
			continue
		}
		if r.Failed != base.Failed {
			out = append(out, Finding{"C05 " + what + "-dependent-failure cmd=" + shape,
				fmt.Sprintf("variant %d (order %s, clock shift %d, chunk %q): base failed=%v (%s), variant failed=%v (%s)", i, v.Order.Mode, v.ClockShift, v.Chunk, base.Failed, base.Err, r.Failed, r.Err)})
			continue
		}
		if r.Stdout != base.Stdout {
			ob.probe("output_differs")
			out = append(out, Finding{"C05 " + what + "-dependent-output cmd=" + shape,
				fmt.Sprintf("variant %d (order %s, clock shift %d, chunk %q): %s", i, v.Order.Mode, v.ClockShift, v.Chunk, firstDiff(base.Stdout, r.Stdout))})
		}
	}
	return out
}

func (c *CaseC05) base() *CLIBase { return &c.Base }
func (c *CaseC05) clone() baseCase {
	d := *c
	d.Variants = append([]VariantC05{}, c.Variants...)
	return &d
}
