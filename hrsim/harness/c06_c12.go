package harness

import (
	"fmt"
	"math/big"
	"regexp"
	"runtime"
	"sort"
	"strings"
	"time"

	"github.com/aquilax/hranoprovod-cli/v3/filter"
	"pgregory.net/rapid"
)

// ---------------------------------------------------------------- C06

// CaseC06 : date range selection is exact, inclusive and independent of layout
// and time zone. Every oracle is metamorphic: the program against itself.
type CaseC06 struct {
	CLI  CLIBase `json:"cli"`
	Base string  `json:"base"` // first day of the log window, 2006-01-02 (chosen around DST changes, year end, leap day)
	Kind string  `json:"kind"` // "window", "grid", "keyword", "position", "summary", "zone"
	ISO  bool    `json:"iso"`
	// AltLayout: "" | "unpadded" (--date-format 2006/1/2, headings written with leading zeros) | "monthname"
	// (--date-format "2 Jan 2006", headings like "05 jan 2021"): the headings parse but are not in canonical form
	AltLayout string    `json:"alt_layout,omitempty"`
	Zone      string    `json:"zone"`
	Zone2     string    `json:"zone2"`
	Clock     int64     `json:"clock"`
	Clock2    int64     `json:"clock2"`
	Today     int       `json:"today_off"` // --today = baseDay + Today
	B         *int      `json:"b,omitempty"`
	E         *int      `json:"e,omitempty"`
	Pos       string    `json:"pos"` // "global", "local", "both"
	Kw        string    `json:"kw,omitempty"`
	KwSide    string    `json:"kw_side,omitempty"` // "b" or "e"
	SumKw     string    `json:"summary_kw,omitempty"`
	Order     OrderPlan `json:"order"`
}

var zonePool = []string{"UTC", "America/Los_Angeles", "America/New_York", "Asia/Tokyo", "Pacific/Kiritimati", "Pacific/Pago_Pago", "Europe/Sofia", "Europe/Berlin", "FIXED:+05:30", "FIXED:-09:30", "Australia/Lord_Howe"}

// basePool: windows of log days that contain or follow a daylight-saving change (US 2021-03-14 and
// 2021-11-07, EU 2021-03-28 and 2021-10-31, Lord Howe 2021-04-04 and 2021-10-03), the year end and a leap day (incl. the end of a leap year).
var basePool = []string{"2021-01-20", "2021-03-10", "2021-03-24", "2021-10-27", "2021-11-03", "2021-04-01", "2021-09-29", "2021-12-27", "2024-02-25", "2021-03-16", "2021-11-20", "2020-12-27", "2024-12-28", "2020-02-26", "2921-01-20", "1021-01-20", "0001-01-20", "9999-12-01", "1677-09-18", "2262-04-08"}

var clockPool = []int64{
	time.Date(2021, 1, 25, 0, 0, 0, 0, time.UTC).UnixNano(),
	time.Date(2021, 1, 25, 23, 59, 59, 999999999, time.UTC).UnixNano(),
	time.Date(2021, 3, 14, 9, 59, 59, 0, time.UTC).UnixNano(), // US DST gap about to start (Pacific)
	time.Date(2021, 3, 14, 10, 0, 0, 0, time.UTC).UnixNano(),
	time.Date(2021, 11, 7, 8, 59, 59, 0, time.UTC).UnixNano(),  // US DST ends
	time.Date(2021, 1, 24, 10, 0, 1, 0, time.UTC).UnixNano(),   // just after midnight in +14
	time.Date(2021, 1, 25, 10, 59, 59, 0, time.UTC).UnixNano(), // just before midnight in -11
	time.Date(2030, 12, 31, 23, 59, 59, 0, time.UTC).UnixNano(),
}

const c06Window = 8

func genC06(thorough bool) func(t *rapid.T) Case {
	periodShapes := shapeNames(func(s Shape) bool { return s.Period })
	globalOnly := []string{"report totals", "report quantity", "report quantity --desc", "report unresolved"}
	return func(t *rapid.T) Case {
		c := &CaseC06{}
		c.Kind = rapid.SampledFrom([]string{"window", "window", "keyword", "position", "summary", "zone", "grid"}).Draw(t, "kind")
		names := append(append([]string{}, periodShapes...), globalOnly...)
		switch c.Kind {
		case "position":
			names = periodShapes
		case "summary":
			names = []string{"summary"}
		case "zone":
			names = append(names, "summary")
		}
		c.ISO = rapid.IntRange(0, 3).Draw(t, "iso") == 3
		layout := defaultDateLayout
		if c.ISO {
			layout = "2006-01-02"
		} else if rapid.IntRange(0, 4).Draw(t, "alt_layout") == 4 {
			c.AltLayout = rapid.SampledFrom([]string{"unpadded", "monthname"}).Draw(t, "alt_layout_kind")
			if c.AltLayout == "monthname" {
				layout = "02 Jan 2006" // what the headings are written in (lower-cased below)
			}
		}
		c.Base = rapid.SampledFrom(basePool).Draw(t, "base_day")
		c.CLI = genCLIBase(t, baseOpts{shapes: names, book: BookOpts{MaxRecipes: 4}, log: LogOpts{MaxDays: 8, MinDays: 1, Window: c06Window, Layout: layout, Base: c.base(),
			Chrono: c.Kind != "grid" && rapid.IntRange(0, 5).Draw(t, "chronological_diary") == 5}})
		if c.AltLayout == "monthname" {
			for i := range c.CLI.Log {
				c.CLI.Log[i].Head = strings.ToLower(c.CLI.Log[i].Head)
			}
		}
		c.CLI.Inv.Date = c.base().AddDate(0, 0, rapid.IntRange(-1, c06Window).Draw(t, "summary_off")).Format(c.layout())
		c.Zone = rapid.SampledFrom(zonePool).Draw(t, "zone")
		c.Zone2 = rapid.SampledFrom(zonePool).Draw(t, "zone2")
		c.Clock = rapid.SampledFrom(clockPool).Draw(t, "clock")
		c.Clock2 = rapid.SampledFrom(clockPool).Draw(t, "clock2")
		c.Today = rapid.IntRange(-2, c06Window+1).Draw(t, "today")
		pick := func(label string) *int {
			if rapid.IntRange(0, 3).Draw(t, label+"_absent") == 0 {
				return nil
			}
			v := rapid.IntRange(-2, c06Window+1).Draw(t, label)
			return &v
		}
		c.B, c.E = pick("b"), pick("e")
		c.Pos = "global"
		if sh := shapeByName(c.CLI.Inv.Shape); sh.Period {
			c.Pos = rapid.SampledFrom([]string{"global", "local", "both"}).Draw(t, "pos")
		}
		if c.Kind == "position" {
			c.Pos = "both"
		}
		c.Kw = rapid.SampledFrom([]string{"today", "yesterday", "last7", "last30"}).Draw(t, "kw")
		c.KwSide = rapid.SampledFrom([]string{"b", "e"}).Draw(t, "kw_side")
		c.SumKw = rapid.SampledFrom([]string{"", "", "today", "yesterday"}).Draw(t, "summary_kw")
		c.Order = OrderPlan{Mode: rapid.SampledFrom([]string{"asc", "desc", "shuffle"}).Draw(t, "order"), Seed: rapid.Uint64().Draw(t, "order_seed")}
		if c.Kind == "keyword" && rapid.Bool().Draw(t, "dst_targeted") {
			// bias: a daylight-saving change of the process zone lies between the keyword's day and --today,
			// and the log has a block on the boundary day
			tr := rapid.SampledFrom(dstTransitions).Draw(t, "transition")
			back := map[string]int{"today": 0, "yesterday": 1, "last7": 7, "last30": 30}[c.Kw]
			after := rapid.IntRange(0, back).Draw(t, "days_after_transition")
			lead := rapid.IntRange(0, 3).Draw(t, "lead")
			trDay, _ := time.Parse("2006-01-02", tr.day)
			today := trDay.AddDate(0, 0, after+rapid.IntRange(0, 1).Draw(t, "utc_side"))
			c.Zone = tr.zone
			c.Base = today.AddDate(0, 0, -back-lead).Format("2006-01-02")
			c.Today = back + lead
			c.CLI.Log = genLog(t, c.CLI.Book, LogOpts{MaxDays: 6, MinDays: 1, Window: c06Window, Layout: layout, Base: c.base()})
			c.CLI.Log = append(c.CLI.Log, Block{Head: c.day(lead), Items: []Item{{"kcal", "1"}}}, Block{Head: c.day(lead + 1), Items: []Item{{"fat", "2"}}})
		}
		return c
	}
}

type dstTransition struct{ zone, day string }

// dstTransitions: UTC dates on which the zone's offset changes.
var dstTransitions = []dstTransition{
	{"America/New_York", "2021-03-14"}, {"America/New_York", "2021-11-07"},
	{"America/Los_Angeles", "2021-03-14"}, {"America/Los_Angeles", "2021-11-07"},
	{"Europe/Berlin", "2021-03-28"}, {"Europe/Berlin", "2021-10-31"},
	{"Europe/Sofia", "2021-03-28"}, {"Europe/Sofia", "2021-10-31"},
	{"Australia/Lord_Howe", "2021-04-03"}, {"Australia/Lord_Howe", "2021-10-02"},
}

// layout is the date format the program is told to use (and the canonical form of its dates).
func (c *CaseC06) layout() string {
	switch {
	case c.ISO:
		return "2006-01-02"
	case c.AltLayout == "unpadded":
		return "2006/1/2"
	case c.AltLayout == "monthname":
		return "2 Jan 2006"
	}
	return defaultDateLayout
}

func (c *CaseC06) base() time.Time {
	t, err := time.Parse("2006-01-02", c.Base)
	if err != nil {
		panic(harnessFault{"bad base day " + c.Base})
	}
	return t
}

func (c *CaseC06) day(off int) string { return c.base().AddDate(0, 0, off).Format(c.layout()) }

// invoke builds a world: blocks is the log, per is the period given as strings
// (nil = flag absent), decoy (if any) is a conflicting period given globally.
func (c *CaseC06) invoke(blocks []Block, b, e *string, pos string, zone string, clock int64) World {
	base := c.CLI
	base.Log = blocks
	iv := base.Inv
	g := append([]string{}, iv.Globals...)
	if c.ISO || c.AltLayout != "" {
		g = append(g, "--date-format", c.layout())
	}
	g = append(g, "--today", c.day(c.Today))
	var l []string
	add := func(dst *[]string, flag string, v *string) {
		if v != nil {
			*dst = append(*dst, flag, *v)
		}
	}
	switch pos {
	case "global":
		add(&g, "-b", b)
		add(&g, "-e", e)
	case "local":
		add(&l, "-b", b)
		add(&l, "-e", e)
	case "both":
		// a conflicting period before the command, the real one on the sub-command
		// (only for the sides that the sub-command sets: an unset side inherits the global one)
		if b != nil {
			g = append(g, "-b", c.day(c06Window+5))
		}
		if e != nil {
			g = append(g, "-e", c.day(-9))
		}
		add(&l, "-b", b)
		add(&l, "-e", e)
	}
	iv.Globals, iv.Locals = g, l
	base.Inv = iv
	w := base.world()
	w.Zone, w.ClockUnixNano, w.Order = zone, clock, c.Order
	return w
}

func (c *CaseC06) keep(blocks []Block, b, e *int) []Block {
	var out []Block
	for _, bl := range blocks {
		d, err := time.Parse(c.layout(), bl.Head)
		if err != nil {
			panic(harnessFault{"generated heading is not a date: " + bl.Head})
		}
		off := int(d.Sub(c.base()).Hours() / 24)
		if (b == nil || off >= *b) && (e == nil || off <= *e) {
			out = append(out, bl)
		}
	}
	return out
}

var summaryHeader = regexp.MustCompile(`(?m)^\d{4}[/-]\d{2}[/-]\d{2} :$`)

func strp(s string) *string { return &s }

// Eval applies the metamorphic relation selected by Kind.
func (c *CaseC06) Eval(ob *Obs) []Finding {
	shape := c.CLI.Inv.Shape
	log := c.CLI.Log
	var out []Finding
	var want2 strings.Builder
	dayp := func(p *int) *string {
		if p == nil {
			return nil
		}
		return strp(c.day(*p))
	}
	same := func(sig, what string, w1, w2 World) {
		r1, r2 := ob.run(w1), ob.run(w2)
		if r1.Panic != "" || r2.Panic != "" {
			return
		}
		ob.nontrivial(hashOf(w1) + hashOf(w2))
		if r1.Failed != r2.Failed || r1.Stdout != r2.Stdout {
			out = append(out, Finding{sig + " cmd=" + shape, fmt.Sprintf("%s: failed %v (%s) vs %v (%s); %s\n  argv1=%q\n  argv2=%q", what, r1.Failed, r1.Err, r2.Failed, r2.Err, firstDiff(r1.Stdout, r2.Stdout), w1.Argv, w2.Argv)})
		}
	}
	window := func(b, e *int, pos string) {
		kept := c.keep(log, b, e)
		if len(kept) > 0 && len(kept) < len(log) {
			ob.probe("period_selects_strict_nonempty_subset")
		}
		if len(kept) == 0 {
			ob.probe("period_empty")
		}
		w1 := c.invoke(log, dayp(b), dayp(e), pos, c.Zone, c.Clock)
		w2 := c.invoke(kept, nil, nil, "global", c.Zone, c.Clock)
		same("C06 period-not-equal-to-deleting-days", fmt.Sprintf("-b %v -e %v (%s) vs the same log with the other days deleted", show(dayp(b)), show(dayp(e)), pos), w1, w2)
	}
	// library level: building the filter twice from one Config must select the same days both times
	// (the Config carries its bounds as pointers; nothing may be written through them)
	if c.B != nil || c.E != nil {
		var fc filter.Config
		if c.B != nil {
			b := c.base().AddDate(0, 0, *c.B)
			fc.BeginningTime = &b
		}
		if c.E != nil {
			e := c.base().AddDate(0, 0, *c.E)
			fc.EndTime = &e
		}
		sel := func() string {
			f := filter.GetIntervalNodeFilter(fc)
			var b strings.Builder
			for off := -3; off <= c06Window+2; off++ {
				ok, err := (*f)(c.base().AddDate(0, 0, off), nil)
				fmt.Fprintf(&b, "%d:%v:%v ", off, ok, err != nil)
			}
			return b.String()
		}
		want := ""
		for off := -3; off <= c06Window+2; off++ {
			fmt.Fprintf(&want2, "%d:%v:false ", off, (c.B == nil || off >= *c.B) && (c.E == nil || off <= *c.E))
		}
		want = want2.String()
		want2.Reset()
		for i := 1; i <= 3; i++ {
			if got := sel(); got != want {
				out = append(out, Finding{"C06 filter-built-again-selects-other-days", fmt.Sprintf("filter no. %d built from the same Config (begin %v end %v): selects %s, expected %s", i, show(dayp(c.B)), show(dayp(c.E)), got, want)})
				break
			}
		}
		ob.count("lib_evals", 1)
	}
	switch c.Kind {
	case "window":
		window(c.B, c.E, c.Pos)
	case "grid":
		// exhaustive over the (begin, end) window of this log, including absent, equal, inverted, boundary
		ob.count("exhaustive_period_grids", 1)
		vals := []*int{nil}
		for v := -2; v <= c06Window+1; v++ {
			v := v
			vals = append(vals, &v)
		}
		for _, b := range vals {
			for _, e := range vals {
				window(b, e, c.Pos)
				if len(out) > 0 {
					return out
				}
			}
		}
	case "keyword":
		back := map[string]int{"today": 0, "yesterday": 1, "last7": 7, "last30": 30}[c.Kw]
		lit := c.Today - back
		var b1, e1, b2, e2 *string
		if c.KwSide == "b" {
			b1, b2, e1, e2 = strp(c.Kw), strp(c.day(lit)), dayp(c.E), dayp(c.E)
		} else {
			e1, e2, b1, b2 = strp(c.Kw), strp(c.day(lit)), dayp(c.B), dayp(c.B)
		}
		w1 := c.invoke(log, b1, e1, c.Pos, c.Zone, c.Clock)
		w2 := c.invoke(log, b2, e2, c.Pos, c.Zone, c.Clock)
		same("C06 keyword-not-resolved-against-today", fmt.Sprintf("-%s %s with --today %s vs the literal date %s", c.KwSide, c.Kw, c.day(c.Today), c.day(lit)), w1, w2)
		// and the keyword run must itself be the exact window
		if c.KwSide == "b" {
			window(&lit, c.E, c.Pos)
		} else {
			window(c.B, &lit, c.Pos)
		}
	case "position":
		w1 := c.invoke(log, dayp(c.B), dayp(c.E), "both", c.Zone, c.Clock)
		w2 := c.invoke(log, dayp(c.B), dayp(c.E), "local", c.Zone, c.Clock)
		if c.B == nil && c.E == nil {
			return nil
		}
		if c.B != nil && c.E != nil {
			same("C06 subcommand-period-does-not-override-global", "conflicting period before the command", w1, w2)
		}
	case "summary":
		d := c.CLI.Inv.Date
		target := d
		if c.SumKw != "" {
			d = c.SumKw
			off := c.Today
			if c.SumKw == "yesterday" {
				off--
			}
			target = c.day(off)
		}
		c2 := *c
		c2.CLI.Inv.Date = d
		var only []Block
		tt, terr := time.Parse(c.layout(), target)
		for _, bl := range log {
			// (by date, not by spelling: a heading may be written in a non-canonical form of the layout)
			if bt, err := time.Parse(c.layout(), bl.Head); err == nil && terr == nil && bt.Equal(tt) {
				only = append(only, bl)
			}
		}
		w1 := c2.invoke(log, nil, nil, "global", c.Zone, c.Clock)
		w2 := c2.invoke(only, nil, nil, "global", c.Zone, c.Clock)
		same("C06 summary-selects-other-days", fmt.Sprintf("summary %s vs the same log restricted to %s", d, target), w1, w2)
		r := ob.run(w1)
		if !r.Failed {
			if n := len(summaryHeader.FindAllString(r.Stdout, -1)); n != len(only) {
				out = append(out, Finding{"C06 summary-wrong-day-count cmd=summary", fmt.Sprintf("summary %s (zone %s): %d day headers printed, the log has %d blocks dated %s", d, c.Zone, n, len(only), target)})
			}
			if len(only) > 0 {
				ob.probe("summary_hits_a_day")
			}
		}
	case "zone":
		d := c.CLI.Inv.Date
		if shape == "summary" && c.SumKw != "" {
			d = c.SumKw
		}
		c2 := *c
		c2.CLI.Inv.Date = d
		var b, e *string = dayp(c.B), dayp(c.E)
		if rapidBoolFromSeed(c.Order.Seed) {
			if c.KwSide == "b" {
				b = strp(c.Kw)
			} else {
				e = strp(c.Kw)
			}
		}
		if shape == "summary" {
			b, e = nil, nil
		}
		w1 := c2.invoke(log, b, e, c.Pos, c.Zone, c.Clock)
		w2 := c2.invoke(log, b, e, c.Pos, c.Zone2, c.Clock2)
		if c.Zone != c.Zone2 {
			ob.probe("two_zones_compared")
		}
		same("C06 depends-on-zone-or-clock", fmt.Sprintf("zone %s clock %d vs zone %s clock %d (--today given)", c.Zone, c.Clock, c.Zone2, c.Clock2), w1, w2)
	}
	return out
}

func rapidBoolFromSeed(s uint64) bool { return s&1 == 1 }

func show(p *string) string {
	if p == nil {
		return "<absent>"
	}
	return *p
}

// ---------------------------------------------------------------- C12

// CaseC12 : reports compose over the history of appends to the log.
type CaseC12 struct {
	Book    []Block     `json:"book"`
	Blocks  []Block     `json:"blocks"` // the history: day blocks in append order
	Cuts    []int       `json:"cuts"`   // sorted split points 0 < c1 < ... < len
	Shape   string      `json:"shape"`
	El      string      `json:"el"`
	Food    string      `json:"food"`
	Integer bool        `json:"integer"`
	Orders  []OrderPlan `json:"orders"` // one schedule per run (cyclic)
	Layout  Layout      `json:"layout"`
	Period  []string    `json:"period,omitempty"` // the same global -b/-e for every run: composition must hold under a period too
	Long    bool        `json:"long,omitempty"`
	// Slow: the log arrives a few bytes at a time with this much simulated time between reads (a pipe
	// from a slow producer): what a report says must not depend on how long the input took to arrive
	Slow int64 `json:"slow_delivery_ns,omitempty"`
}

var perDayShapes = []string{"reg", "reg left-aligned", "reg old", "reg -s", "reg -s --csv", "reg -f", "reg --no-totals", "reg --totals-only", "reg --shorten", "csv log", "print"}
var periodSumShapes = []string{"bal", "bal -s", "report totals", "report quantity", "report quantity --desc", "reg -s -g"}

var integerQty = []string{"1", "2", "3", "-1", "-2", "0", "10", "4", "7", "-5"}

func genC12(thorough bool) func(t *rapid.T) Case {
	all := append(append([]string{}, perDayShapes...), periodSumShapes...)
	return func(t *rapid.T) Case {
		c := &CaseC12{}
		c.Integer = rapid.IntRange(0, 2).Draw(t, "decimal") < 2
		c.Book = genBook(t, BookOpts{MaxRecipes: 6, ExactOnly: true})
		c.Blocks = genLog(t, c.Book, LogOpts{MinDays: 2, MaxDays: 9, Window: 4, ExactOnly: c.Integer,
			LongDays: rapid.IntRange(0, 5).Draw(t, "long_days") == 5, Pad: rapid.IntRange(0, 7).Draw(t, "pad") == 7,
			Chrono: rapid.IntRange(0, 7).Draw(t, "chronological_diary") == 7})
		if c.Integer {
			toInt := func(bs []Block) {
				for i := range bs {
					for j := range bs[i].Items {
						h := 0
						for _, ch := range bs[i].Items[j].Qty {
							h = h*31 + int(ch)
						}
						bs[i].Items[j].Qty = integerQty[h%len(integerQty)]
					}
				}
			}
			toInt(c.Book)
			toInt(c.Blocks)
		}
		// a day that differs from another one only in order
		if len(c.Blocks) >= 2 && rapid.Bool().Draw(t, "permuted_duplicate") {
			src := c.Blocks[0]
			dup := Block{Head: src.Head}
			for i := len(src.Items) - 1; i >= 0; i-- {
				dup.Items = append(dup.Items, src.Items[i])
			}
			c.Blocks = append(c.Blocks, dup)
		}
		n := len(c.Blocks)
		k := rapid.IntRange(1, 3).Draw(t, "n_cuts")
		set := map[int]bool{}
		for i := 0; i < k; i++ {
			set[rapid.IntRange(1, n-1).Draw(t, fmt.Sprintf("cut%d", i))] = true
		}
		for v := range set {
			c.Cuts = append(c.Cuts, v)
		}
		sort.Ints(c.Cuts)
		c.Shape = rapid.SampledFrom(all).Draw(t, "shape")
		els := elementsOf(c.Book, c.Blocks)
		if len(els) == 0 {
			els = []string{"kcal"}
		}
		c.El = rapid.SampledFrom(els).Draw(t, "el")
		c.Food = rapid.SampledFrom([]string{"bread", "soup/.*", "^r/", "e", "coffee/cup", "."}).Draw(t, "food")
		for i := 0; i < 4; i++ {
			c.Orders = append(c.Orders, OrderPlan{Mode: rapid.SampledFrom([]string{"asc", "desc", "shuffle", "rotate"}).Draw(t, fmt.Sprintf("o%d", i)), Seed: rapid.Uint64().Draw(t, fmt.Sprintf("os%d", i)), Arg: 1})
		}
		c.Layout = genLayout(t, "layout")
		if rapid.IntRange(0, 3).Draw(t, "with_period") == 3 {
			if rapid.Bool().Draw(t, "pb") {
				c.Period = append(c.Period, "-b", baseDay.AddDate(0, 0, rapid.IntRange(-1, 4).Draw(t, "pb_off")).Format(defaultDateLayout))
			}
			if rapid.Bool().Draw(t, "pe") {
				c.Period = append(c.Period, "-e", baseDay.AddDate(0, 0, rapid.IntRange(-1, 4).Draw(t, "pe_off")).Format(defaultDateLayout))
			}
		}
		c.Long = rapid.IntRange(0, 3).Draw(t, "long_forms") == 3
		c.Slow = rapid.SampledFrom([]int64{0, 0, 0, 0, 50e6, 300e6, 5e9, 3600e9}).Draw(t, "slow_delivery")
		return c
	}
}

func isPerDay(shape string) bool {
	for _, s := range perDayShapes {
		if s == shape {
			return true
		}
	}
	return false
}

var numRe = regexp.MustCompile(`^-?\d+\.\d+$`)

// parseRows turns a period report into row-name -> amounts, tolerant of widths.
func parseRows(shape, out string) (map[string][]*big.Rat, error) {
	rows := map[string][]*big.Rat{}
	put := func(name string, nums ...string) error {
		if _, dup := rows[name]; dup {
			return fmt.Errorf("row %q printed twice", name)
		}
		for _, n := range nums {
			if !numRe.MatchString(n) {
				return fmt.Errorf("row %q: %q is not an amount", name, n)
			}
			r, _ := new(big.Rat).SetString(n)
			rows[name] = append(rows[name], r)
		}
		return nil
	}
	lines := strings.Split(strings.TrimRight(out, "\n"), "\n")
	if out == "" {
		lines = nil
	}
	switch {
	case strings.HasPrefix(shape, "bal"):
		var path []string
		afterRule := false
		for _, ln := range lines {
			if strings.HasPrefix(ln, "-----------|") {
				afterRule = true
				continue
			}
			i := strings.Index(ln, " | ")
			if i < 0 {
				return nil, fmt.Errorf("unreadable balance line %q", ln)
			}
			amount, rest := strings.TrimSpace(ln[:i]), ln[i+3:]
			if afterRule {
				if err := put("TOTAL:"+rest, amount); err != nil {
					return nil, err
				}
				continue
			}
			level := 0
			for strings.HasPrefix(rest, "  ") {
				rest = rest[2:]
				level++
			}
			if level > len(path) {
				return nil, fmt.Errorf("balance line %q is indented deeper than its parent", ln)
			}
			path = append(path[:level:level], rest)
			if err := put(strings.Join(path, "/"), amount); err != nil {
				return nil, err
			}
		}
	case shape == "report totals":
		for i, ln := range lines {
			f := strings.Fields(ln)
			if i == 0 {
				continue // header
			}
			if len(f) < 4 {
				return nil, fmt.Errorf("unreadable totals line %q", ln)
			}
			rest := ln
			for k := 0; k < 3; k++ {
				rest = strings.TrimLeft(rest, " ")
				rest = rest[len(f[k]):]
			}
			name := strings.TrimSpace(rest)
			if err := put(name, f[0], f[1], f[2]); err != nil {
				return nil, err
			}
		}
	default: // "amount<TAB>name"
		for _, ln := range lines {
			i := strings.Index(ln, "\t")
			if i < 0 {
				return nil, fmt.Errorf("unreadable line %q", ln)
			}
			if err := put(ln[i+1:], strings.TrimSpace(ln[:i])); err != nil {
				return nil, err
			}
		}
	}
	return rows, nil
}

// Eval runs the report after every append and checks prefix stability /
// additivity over the recorded history.
func (c *CaseC12) Eval(ob *Obs) []Finding {
	bookText := render(c.Book, plainLayout)
	runs := 0
	run := func(blocks []Block) *Result {
		w := stdWorld(bookText, render(blocks, c.Layout))
		w.Argv = Invocation{Shape: c.Shape, El: c.El, Food: c.Food, Globals: append([]string{"--no-color"}, c.Period...), Long: c.Long}.Argv()
		w.Order = c.Orders[runs%len(c.Orders)]
		if c.Slow > 0 {
			w.Files[fileIdx(&w, "log.yaml")].Plan = ReadPlan{Chunk: "fixed", MaxChunk: 24, DelayNano: c.Slow, FaultAt: -1}
			ob.probe("slow_delivery")
		}
		runs++
		return ob.run(w)
	}
	cuts := append([]int{0}, c.Cuts...)
	if cuts[len(cuts)-1] != len(c.Blocks) {
		cuts = append(cuts, len(c.Blocks))
	}
	whole := run(c.Blocks)
	var parts []*Result
	for i := 0; i+1 < len(cuts); i++ {
		parts = append(parts, run(c.Blocks[cuts[i]:cuts[i+1]]))
	}
	partFailed := false
	for _, r := range parts {
		if r.Failed {
			partFailed = true
		}
	}
	if whole.Failed || partFailed {
		// Judge failures run by run, each from a process whose pools are empty, so that one run's
		// leftovers cannot make the next one fail (or succeed).
		scrub := func() { runtime.GC(); runtime.GC() }
		scrub()
		whole = run(c.Blocks)
		partFailed = false
		for i := 0; i+1 < len(cuts); i++ {
			scrub()
			parts[i] = run(c.Blocks[cuts[i]:cuts[i+1]])
			partFailed = partFailed || parts[i].Failed
		}
	}
	if whole.Failed && !partFailed {
		// every part is reported without complaint, but their concatenation is not: the report of the
		// history is not composed of the reports of its parts
		return []Finding{{"C12 whole-fails-although-every-part-succeeds cmd=" + c.Shape,
			fmt.Sprintf("history of %d day blocks cut at %v: each part is reported, the whole log fails with %q %s", len(c.Blocks), c.Cuts, whole.Err, short(whole.Panic, 150))}}
	}
	if whole.Failed || partFailed {
		return nil // a failure that the parts share (bad input, C08/C09/C11 territory) is not this property's business
	}
	dates := map[string]int{}
	for _, b := range c.Blocks {
		dates[b.Head]++
	}
	for _, n := range dates {
		if n > 1 {
			ob.probe("repeated_date")
			break
		}
	}
	ob.nontrivial(hashOf(c))
	var out []Finding
	if isPerDay(c.Shape) {
		var cat strings.Builder
		for _, p := range parts {
			cat.WriteString(p.Stdout)
		}
		if cat.String() != whole.Stdout {
			out = append(out, Finding{"C12 per-day-report-not-concatenation cmd=" + c.Shape,
				fmt.Sprintf("history of %d day blocks cut at %v: report of the whole differs from the concatenation of the parts' reports: %s", len(c.Blocks), c.Cuts, firstDiff(cat.String(), whole.Stdout))})
		}
		// prefix stability: appending never changes what is shown for earlier days
		prefix := run(c.Blocks[:cuts[1]])
		if !prefix.Failed && !strings.HasPrefix(whole.Stdout, prefix.Stdout) {
			out = append(out, Finding{"C12 append-changes-earlier-days cmd=" + c.Shape, firstDiff(prefix.Stdout, whole.Stdout)})
		}
		return out
	}
	wr, err := parseRows(c.Shape, whole.Stdout)
	if err != nil {
		return append(out, Finding{"C12 period-report-unreadable cmd=" + c.Shape, err.Error()})
	}
	sum := map[string][]*big.Rat{}
	for _, p := range parts {
		pr, err := parseRows(c.Shape, p.Stdout)
		if err != nil {
			return append(out, Finding{"C12 period-report-unreadable cmd=" + c.Shape, err.Error()})
		}
		for name, vals := range pr {
			if sum[name] == nil {
				sum[name] = make([]*big.Rat, len(vals))
				for i := range vals {
					sum[name][i] = new(big.Rat)
				}
			}
			for i, v := range vals {
				sum[name][i].Add(sum[name][i], v)
			}
		}
	}
	tol := new(big.Rat)
	if !c.Integer {
		tol.SetFrac64(int64(5*(len(parts)+1)), 1000)
	}
	var names []string
	for n := range wr {
		names = append(names, n)
	}
	for n := range sum {
		if _, ok := wr[n]; !ok {
			names = append(names, n)
		}
	}
	sort.Strings(names)
	for _, n := range names {
		w, s := wr[n], sum[n]
		if w == nil || s == nil {
			out = append(out, Finding{"C12 period-rows-not-union cmd=" + c.Shape, fmt.Sprintf("row %q: in whole=%v, in parts=%v (cuts %v)", n, w != nil, s != nil, c.Cuts)})
			return out
		}
		for i := range w {
			d := new(big.Rat).Sub(w[i], s[i])
			if d.Abs(d).Cmp(tol) > 0 {
				out = append(out, Finding{"C12 period-amount-not-sum cmd=" + c.Shape, fmt.Sprintf("row %q column %d: whole %s, sum of parts %s (cuts %v, tolerance %s)", n, i, w[i].FloatString(2), s[i].FloatString(2), c.Cuts, tol.FloatString(3))})
				return out
			}
		}
	}
	return out
}
