//go:build !race

package harness

const raceBuild = false
