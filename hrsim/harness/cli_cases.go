package harness

import (
	"fmt"
	"sort"
	"strings"

	"github.com/aquilax/hranoprovod-cli/v3/verifsim"
	"pgregory.net/rapid"
)

// ---------------------------------------------------------------- shared CLI world generation

// CLIBase is what most CLI-level cases start from: a book, a log, an invocation.
type CLIBase struct {
	Book       []Block    `json:"book"`
	Log        []Block    `json:"log"`
	BookLayout Layout     `json:"book_layout"`
	LogLayout  Layout     `json:"log_layout"`
	Inv        Invocation `json:"inv"`
	Today      string     `json:"today,omitempty"`
	// Order is the map-order schedule of the run (cases with an order field of their own overwrite it)
	Order OrderPlan `json:"order"`
	// Config, if not empty, is the content of a configuration file at the default location that sets nothing
	// the case depends on: the commands then go through the configuration-file path of the option loader
	Config string `json:"config,omitempty"`
}

func (b *CLIBase) world() World {
	w := stdWorld(render(b.Book, b.BookLayout), render(b.Log, b.LogLayout))
	w.Argv = b.Inv.Argv()
	if b.Order.Mode != "" {
		w.Order = b.Order
	}
	if b.Config != "" {
		w.Files = append(w.Files, FileSpec{Path: w.Home + "/.hranoprovod/config", Kind: "file", Data: b.Config, Plan: ReadPlan{FaultAt: -1}})
	}
	return w
}

func elementsOf(book, log []Block) []string {
	set := map[string]bool{}
	heads := map[string]bool{}
	for _, r := range book {
		heads[r.Head] = true
	}
	for _, r := range book {
		for _, it := range r.Items {
			if !heads[it.Name] {
				set[it.Name] = true
			}
		}
	}
	for _, d := range log {
		for _, it := range d.Items {
			if !heads[it.Name] {
				set[it.Name] = true
			}
		}
	}
	out := make([]string, 0, len(set))
	for k := range set {
		out = append(out, k)
	}
	sort.Strings(out)
	return out
}

type baseOpts struct {
	shapes    []string
	book      BookOpts
	log       LogOpts
	big       bool // allow long logs so that reports exceed the 4096-byte writer buffers
	plainOnly bool
	longNames bool // allow one food name of 4096..12000 bytes (written straight through a bufio.Writer)
	hugeFiles bool // allow files larger than 64 KiB (comment padding)
}

func genCLIBase(t *rapid.T, o baseOpts) CLIBase {
	var b CLIBase
	b.Book = genBook(t, o.book)
	lo := o.log
	if o.big && rapid.IntRange(0, 3).Draw(t, "big_log") == 3 {
		lo.MinDays, lo.MaxDays, lo.Window = 25, 70, 90
	}
	b.Log = genLog(t, b.Book, lo)
	if o.longNames && rapid.IntRange(0, 7).Draw(t, "long_name") == 7 {
		n := rapid.SampledFrom([]int{4096, 5000, 12000}).Draw(t, "long_name_len")
		long := strings.Repeat("n", n-4) + "/end"
		d, i := -1, -1
		for di := range b.Log {
			if len(b.Log[di].Items) > 0 {
				d, i = di, rapid.IntRange(0, len(b.Log[di].Items)-1).Draw(t, "long_name_at")
				break
			}
		}
		if d >= 0 {
			b.Log[d].Items[i].Name = long
		} else {
			b.Log = append(b.Log, Block{Head: "2021/01/20", Items: []Item{{long, "1"}}})
		}
	}
	if o.hugeFiles && len(b.Log) > 0 && rapid.IntRange(0, 9).Draw(t, "huge_file") == 9 {
		// more than the 64 KiB the line scanner ever buffers
		b.Log[rapid.IntRange(0, len(b.Log)-1).Draw(t, "pad_log_after")].PadAfter = 70000
		if len(b.Book) > 0 && rapid.Bool().Draw(t, "pad_book") {
			b.Book[rapid.IntRange(0, len(b.Book)-1).Draw(t, "pad_book_after")].PadAfter = 70000
		}
	}
	if o.plainOnly {
		b.BookLayout, b.LogLayout = plainLayout, plainLayout
	} else {
		b.BookLayout = genLayout(t, "book_layout")
		b.LogLayout = genLayout(t, "log_layout")
	}
	b.Inv = genInvocation(t, o.shapes, b.Book, b.Log)
	b.Order = OrderPlan{Mode: rapid.SampledFrom([]string{"asc", "desc", "shuffle", "rotate"}).Draw(t, "base_order"), Seed: rapid.Uint64().Draw(t, "base_order_seed"), Arg: 1}
	b.Config = rapid.SampledFrom([]string{"", "", "", "", "[Global]\n", "; nothing set\n[Global]\n[Resolver]\n"}).Draw(t, "benign_config")
	return b
}

func genInvocation(t *rapid.T, names []string, book, log []Block) Invocation {
	iv := Invocation{Shape: rapid.SampledFrom(names).Draw(t, "shape")}
	els := elementsOf(book, log)
	if len(els) == 0 {
		els = []string{"kcal"}
	}
	iv.El = rapid.SampledFrom(els).Draw(t, "el")
	foods := []string{"bread", "soup/.*", "^r/", "e", "coffee/cup"}
	iv.Food = rapid.SampledFrom(foods).Draw(t, "food_pattern")
	iv.Date = baseDay.AddDate(0, 0, rapid.IntRange(0, 9).Draw(t, "summary_day")).Format(defaultDateLayout)
	if len(log) > 0 && rapid.Bool().Draw(t, "summary_hit") {
		iv.Date = log[rapid.IntRange(0, len(log)-1).Draw(t, "summary_idx")].Head
	}
	iv.Globals = []string{}
	iv.Long = rapid.IntRange(0, 3).Draw(t, "long_forms") == 3
	if rapid.Bool().Draw(t, "no_color") {
		iv.Globals = append(iv.Globals, "--no-color")
	}
	return iv
}

// genExtraLocals draws a subset of the presentation flags of the command (flag combinations).
func genExtraLocals(t *rapid.T, shape string) []string {
	var pool []string
	switch {
	case strings.HasPrefix(shape, "reg"):
		pool = []string{"--totals-only", "--no-totals", "--shorten", "--csv", "--no-color", "-g", "--use-old-reg-reporter", "--internal-template-name=left-aligned"}
	case strings.HasPrefix(shape, "bal"):
		pool = []string{"-c", "--collapse-last"}
	case strings.HasPrefix(shape, "report quantity"), strings.HasPrefix(shape, "report element-total"):
		pool = []string{"--desc"}
	default:
		return nil
	}
	var out []string
	for _, f := range pool {
		if rapid.IntRange(0, 2).Draw(t, "flag"+f) == 2 {
			out = append(out, f)
		}
	}
	return out
}

// ---------------------------------------------------------------- C17

// CaseC17 : a report that cannot be written completely yields a non-zero exit.
type CaseC17 struct {
	Base     CLIBase `json:"base"`
	SinkKind string  `json:"sink_kind"`
	Short    bool    `json:"short"`
	// MaxExhaustive: reports up to this length get every offset; longer ones boundaries + Sample seeded offsets.
	MaxExhaustive int    `json:"max_exhaustive"`
	Sample        int    `json:"sample"`
	SampleSeed    uint64 `json:"sample_seed"`
	// LintErrors: for the lint shapes, that many malformed lines are appended to the linted file (lint reports them and still exits 0)
	LintErrors int `json:"lint_errors,omitempty"`
	// LintLongLine: the linted file ends with a line of 70000 bytes (lint normally fails on it: then there is no report to lose)
	LintLongLine bool `json:"lint_long_line,omitempty"`
	// Only, if >= 0, restricts the sweep to one offset (set by the minimiser / replay).
	Only int `json:"only"`
}

func genC17(thorough bool) func(t *rapid.T) Case {
	names := shapeNames(func(s Shape) bool { return s.Report || thorough })
	return func(t *rapid.T) Case {
		c := &CaseC17{Only: -1}
		c.Base = genCLIBase(t, baseOpts{shapes: names, book: BookOpts{MaxRecipes: 6}, log: LogOpts{MaxDays: 5}, big: true, plainOnly: true, longNames: true})
		if rapid.IntRange(0, 3).Draw(t, "extra_locals") == 3 {
			c.Base.Inv.Locals = genExtraLocals(t, c.Base.Inv.Shape)
		}
		c.SinkKind = rapid.SampledFrom([]string{"ENOSPC", "EPIPE", "ENOSPC", "EPIPE", "EAGAIN"}).Draw(t, "sink_kind")
		c.Short = rapid.Bool().Draw(t, "short_write")
		c.MaxExhaustive = 600
		c.Sample = 40
		if thorough {
			c.MaxExhaustive = 2500
			c.Sample = 200
		}
		c.SampleSeed = rapid.Uint64().Draw(t, "sample_seed")
		if strings.HasPrefix(c.Base.Inv.Shape, "lint") {
			c.LintErrors = rapid.SampledFrom([]int{0, 0, 1, 7, 99, 100, 101, 250}).Draw(t, "lint_errors")
			c.LintLongLine = rapid.IntRange(0, 3).Draw(t, "lint_long_line") == 3
		}
		return c
	}
}

func sweepOffsets(length, maxExhaustive, sample int, seed uint64, bounds []int) (offs []int, exhaustive bool) {
	if length <= maxExhaustive {
		for k := 0; k < length; k++ {
			offs = append(offs, k)
		}
		return offs, true
	}
	set := map[int]bool{}
	for _, b := range bounds {
		if b >= 0 && b < length {
			set[b] = true
		}
	}
	r := verifsim.NewRng(seed)
	for i := 0; i < sample; i++ {
		set[r.Intn(length)] = true
	}
	for k := range set {
		offs = append(offs, k)
	}
	sort.Ints(offs)
	return offs, false
}

// Eval sweeps the sink-failure offsets of one report.
func (c *CaseC17) Eval(ob *Obs) []Finding {
	w := c.Base.world()
	if c.LintErrors > 0 || c.LintLongLine {
		target := "log.yaml"
		if c.Base.Inv.Shape == "lint db" {
			target = "food.yaml"
		}
		fi := fileIdx(&w, target)
		var b strings.Builder
		b.WriteString(w.Files[fi].Data + "zz/bad:\n")
		for i := 0; i < c.LintErrors; i++ {
			fmt.Fprintf(&b, "  bad%d: x\n", i)
		}
		if c.LintLongLine {
			b.WriteString("  " + strings.Repeat("w", 70000) + ": 1\n")
		}
		w.Files[fi].Data = b.String()
	}
	base := ob.run(w)
	if base.Panic != "" {
		return nil // crash freedom is C08's business
	}
	shape := c.Base.Inv.Shape
	L := len(base.Stdout)
	if L > 4096 {
		ob.probe("report_gt_4096")
	}
	if L > 8192 {
		ob.probe("report_gt_8192")
	}
	var out []Finding
	// fault-free twin: a sink that would fail only beyond the report must change nothing
	tw := cloneWorld(w)
	tw.Sink = SinkPlan{FailAt: L, Kind: c.SinkKind, Short: c.Short}
	twin := ob.run(tw)
	if twin.Stats.SinkFaultFired || twin.Failed != base.Failed || twin.Stdout != base.Stdout {
		out = append(out, Finding{"C17 fault-free-twin-differs cmd=" + shape,
			fmt.Sprintf("sink failing at offset %d = report length changed the run: fired=%v failed=%v/%v diff=%s", L, twin.Stats.SinkFaultFired, base.Failed, twin.Failed, firstDiff(base.Stdout, twin.Stdout))})
	}
	if base.Failed || L == 0 {
		return out
	}
	// real-binary arm (a sample): the uninstrumented program with its standard output on /dev/full, on a pipe nobody
	// reads and on a regular file that cannot grow must end with a non-zero status too (this is where main(), signals and os.Exit live)
	if realBin != "" && c.Only < 0 && verifsim.HashString(hashOf(c.Base))%24 == 0 {
		for _, sink := range []string{"devfull", "closedpipe", "fullfile"} {
			rr := runReal(w, sink)
			ob.count("real_binary_runs", 1)
			if !rr.failed {
				out = append(out, Finding{"C17 real-binary-exit0 sink=" + sink + " cmd=" + shape, fmt.Sprintf("the real binary exited 0 although its %d-byte report could not be written (%s); stderr %q", L, sink, short(rr.stderr, 200))})
			}
		}
	}
	offs, exhaustive := sweepOffsets(L, c.MaxExhaustive, c.Sample, c.SampleSeed, []int{0, 1, 4095, 4096, 4097, 8191, 8192, 8193, L - 1})
	if c.Only >= 0 {
		offs, exhaustive = []int{c.Only}, false
	}
	if exhaustive {
		ob.count("exhaustive_offset_sweeps", 1)
	}
	ch := hashOf(c.Base)
	for _, k := range offs {
		fw := cloneWorld(w)
		fw.Sink = SinkPlan{FailAt: k, Kind: c.SinkKind, Short: c.Short}
		ob.planned("sink_" + c.SinkKind)
		r := ob.run(fw)
		if !r.Stats.SinkFaultFired {
			continue
		}
		ob.fired("sink_" + c.SinkKind)
		ob.nontrivial(fmt.Sprintf("%s@%d%s%v", ch, k, c.SinkKind, c.Short))
		if r.Stats.SinkFirstFailInWrite >= base.Stats.SinkWrites {
			ob.probe("sink_fault_in_final_write")
		} else {
			ob.probe("sink_fault_in_earlier_write") // the writer's buffer filled before Flush: the error surfaces inside Process
		}
		if strings.HasPrefix(r.Panic, "hang:") {
			out = append(out, Finding{"C17 sink-failure-hang cmd=" + shape,
				fmt.Sprintf("stdout failed with %s after %d of %d bytes (short=%v) and the command neither finished nor failed: %s", c.SinkKind, k, L, c.Short, short(r.Panic, 200))})
			c.Only = k
			return out
		}
		if c.SinkKind == "EAGAIN" {
			// a transient failure: the command may fail, or carry on and deliver the complete report - nothing else
			if !r.Failed && r.Stdout != base.Stdout {
				out = append(out, Finding{"C17 transient-write-error-corrupts-report cmd=" + shape,
					fmt.Sprintf("one write failed with EAGAIN after %d of %d bytes (short=%v); the command reported success but what arrived is not the report: %s", k, L, c.Short, firstDiff(base.Stdout, r.Stdout))})
				c.Only = k
				return out
			}
			continue
		}
		if !r.Failed {
			out = append(out, Finding{"C17 sink-failure-exit0 cmd=" + shape,
				fmt.Sprintf("stdout failed with %s after %d of %d bytes (short=%v) and the command still reported success", c.SinkKind, k, L, c.Short)})
			c.Only = k // smallest failing offset; kept in the replay file
			return out
		}
	}
	return out
}

// ---------------------------------------------------------------- C10

// CaseC10 : unreadable input is an error, never a silently shortened report.
type CaseC10 struct {
	Base          CLIBase `json:"base"`
	Kind          string  `json:"kind"`   // "offsets", "longline", "dir", "openfail"
	Target        string  `json:"target"` // "log" or "db"
	Fault         string  `json:"fault"`  // EIO / UNEXPECTED_EOF / CUSTOM ; for openfail: ENOENT / EACCES
	WithData      bool    `json:"with_data"`
	Chunk         string  `json:"chunk"`
	ChunkSeed     uint64  `json:"chunk_seed"`
	MaxChunk      int     `json:"max_chunk"`
	ZeroReads     int     `json:"zero_reads"`
	MaxExhaustive int     `json:"max_exhaustive"`
	Sample        int     `json:"sample"`
	LongLen       int     `json:"long_len"`
	LongWhere     int     `json:"long_where"` // index of the block before which the long line goes
	LongForm      string  `json:"long_form"`  // "comment", "note"
	// StatZero: the target reports size 0 to Stat (a FIFO, a procfs entry): a program that trusts the size reads nothing
	StatZero bool   `json:"stat_zero,omitempty"`
	Odd      string `json:"odd,omitempty"` // kind "sentinel": an unusual but legal line put in the middle of the file
	Only     int    `json:"only"`
}

func genC10(thorough bool) func(t *rapid.T) Case {
	return func(t *rapid.T) Case {
		c := &CaseC10{Only: -1}
		c.Kind = rapid.SampledFrom([]string{"offsets", "offsets", "offsets", "longline", "dir", "openfail", "sentinel"}).Draw(t, "kind")
		c.Odd = rapid.SampledFrom([]string{"", "dots-heading", "long-comment", "long-note", "blank-runs", "tab-comment"}).Draw(t, "odd_line")
		c.StatZero = rapid.IntRange(0, 3).Draw(t, "stat_zero") == 3
		c.Target = rapid.SampledFrom([]string{"log", "db"}).Draw(t, "target")
		names := shapeNames(func(s Shape) bool {
			if c.Target == "log" {
				return s.ReadsLog && !strings.HasPrefix(s.Name, "lint db")
			}
			return s.ReadsDB && !strings.HasPrefix(s.Name, "lint") || s.Name == "lint db" || s.Name == "lint db log"
		})
		c.Base = genCLIBase(t, baseOpts{shapes: names, book: BookOpts{MaxRecipes: 5}, log: LogOpts{MaxDays: 4, MinDays: 1}})
		if len(c.Base.Book) == 0 {
			c.Base.Book = []Block{{Head: "pie", Items: []Item{{"kcal", "2"}}}}
		}
		c.Fault = rapid.SampledFrom([]string{"EIO", "UNEXPECTED_EOF", "CUSTOM"}).Draw(t, "fault_kind")
		if c.Kind == "openfail" {
			c.Fault = rapid.SampledFrom([]string{"ENOENT", "EACCES"}).Draw(t, "open_fault")
		}
		c.WithData = rapid.Bool().Draw(t, "fault_with_data")
		c.Chunk = rapid.SampledFrom([]string{"whole", "one", "seeded", "fixed"}).Draw(t, "chunk")
		c.ChunkSeed = rapid.Uint64().Draw(t, "chunk_seed")
		c.MaxChunk = rapid.SampledFrom([]int{2, 3, 7, 16, 64, 4096}).Draw(t, "max_chunk")
		c.ZeroReads = rapid.IntRange(0, 2).Draw(t, "zero_reads")
		c.MaxExhaustive, c.Sample = 400, 30
		if thorough {
			c.MaxExhaustive, c.Sample = 2000, 150
		}
		c.LongLen = rapid.SampledFrom([]int{65536, 65537, 70000, 131072}).Draw(t, "long_len")
		c.LongWhere = rapid.IntRange(0, 6).Draw(t, "long_where")
		c.LongForm = rapid.SampledFrom([]string{"comment", "note"}).Draw(t, "long_form")
		return c
	}
}

func (c *CaseC10) targetPath() string {
	if c.Target == "db" {
		return "food.yaml"
	}
	return "log.yaml"
}

func fileIdx(w *World, path string) int {
	for i := range w.Files {
		if w.Files[i].Path == path {
			return i
		}
	}
	panic(harnessFault{"no file " + path})
}

// Eval injects the read faults.
func (c *CaseC10) Eval(ob *Obs) []Finding {
	w := c.Base.world()
	shape := c.Base.Inv.Shape
	path := c.targetPath()
	fi := fileIdx(&w, path)
	sigTail := " cmd=" + shape + " file=" + c.Target
	var out []Finding
	switch c.Kind {
	case "dir", "openfail":
		fw := cloneWorld(w)
		switch {
		case c.Kind == "dir":
			fw.Files[fi].Kind = "dir"
			ob.planned("read_EISDIR")
		case c.Fault == "EACCES":
			fw.Files[fi].Kind = "eacces"
			ob.planned("open_EACCES")
		default:
			fw.Files = append(fw.Files[:fi:fi], fw.Files[fi+1:]...)
			ob.planned("open_ENOENT")
		}
		if c.StatZero && c.Kind == "dir" {
			fw.Files[fi].StatSize = new(int64)
		}
		r := ob.run(fw)
		fired := r.Stats.ReadFaultsFired > 0 || r.Stats.OpenErrors > 0
		if !fired && c.StatZero && c.Kind == "dir" && r.Panic == "" && !r.Failed {
			// the program never tried to read the directory. Fine if the command has no use for the file;
			// not if its report differs from the one it gives with the file in place
			if base := ob.run(w); !base.Failed && base.Stdout != r.Stdout {
				return []Finding{{"C10 unreadable-input-never-read" + sigTail, fmt.Sprintf("%s is a directory reporting size 0: the command did not try to read it and reported success with %d bytes of output instead of %d", path, len(r.Stdout), len(base.Stdout))}}
			}
		}
		if !fired || r.Panic != "" {
			return nil
		}
		ob.fired(map[bool]string{true: "read_EISDIR", false: "open_" + c.Fault}[c.Kind == "dir"])
		ob.nontrivial(hashOf(c.Base) + c.Kind + c.Fault)
		if realBin != "" && c.Fault != "EACCES" && verifsim.HashString(hashOf(c.Base))%8 == 0 {
			// real-binary arm: a real directory / a really missing file (EACCES cannot be staged: the check may run as root)
			rr := runReal(fw, "")
			ob.count("real_binary_runs", 1)
			if !rr.failed {
				out = append(out, Finding{"C10 real-binary-unreadable-" + c.Kind + "-exit0" + sigTail, fmt.Sprintf("the real binary exited 0 with %d bytes of output", len(rr.stdout))})
			}
		}
		if !r.Failed {
			out = append(out, Finding{"C10 unreadable-" + c.Kind + "-exit0" + sigTail,
				fmt.Sprintf("%s could not be opened/read (%s %s) and the command reported success with %d bytes of output", path, c.Kind, c.Fault, len(r.Stdout))})
		}
		return out
	case "sentinel":
		// "whenever a command succeeds, every heading and entry of the file has been taken into account":
		// a last block that only this file has must show up in the export, whatever legal oddity precedes it
		blocks := c.Base.Log
		ly := c.Base.LogLayout
		if c.Target == "db" {
			blocks, ly = c.Base.Book, c.Base.BookLayout
		}
		where := c.LongWhere
		if where > len(blocks) {
			where = len(blocks)
		}
		odd := ""
		switch c.Odd {
		case "dots-heading":
			if c.Target == "db" { // a recipe may be called "..."; in a log it would not be a date
				odd = "..." + ly.EOL + ly.Indent + "kcal" + ly.Sep + "1" + ly.EOL
			}
		case "long-comment":
			odd = "# " + strings.Repeat("c", 9000) + ly.EOL
		case "long-note":
			if where > 0 {
				odd = ly.Indent + "# note: " + strings.Repeat("n", 5000) + ly.EOL
			}
		case "blank-runs":
			odd = strings.Repeat(ly.EOL, 40) + "   " + ly.EOL + "\t" + ly.EOL
		case "tab-comment":
			odd = "#\t" + ly.EOL + "#" + ly.EOL
		}
		sentinel := "2021/02/27:" + ly.EOL + ly.Indent + "SENTINEL" + ly.Sep + "7" + ly.EOL
		args, want := []string{"csv", "log"}, "2021-02-27,SENTINEL,7.000"
		if c.Target == "db" {
			sentinel = "zz/sentinel:" + ly.EOL + ly.Indent + "kcal" + ly.Sep + "7" + ly.EOL
			args, want = []string{"csv", "database"}, "zz/sentinel,kcal,7.00"
		}
		sw := cloneWorld(w)
		sw.Files[fi].Data = render(blocks[:where], ly) + odd + render(blocks[where:], ly) + sentinel
		sw.Argv = append([]string{"hranoprovod-cli"}, args...)
		r := ob.run(sw)
		ob.nontrivial(hashOf(c.Base) + "sentinel" + c.Odd + fmt.Sprint(where))
		ob.probe("sentinel_" + c.Odd)
		if r.Panic == "" && !r.Failed && !strings.Contains(r.Stdout, want) {
			out = append(out, Finding{"C10 success-without-reading-everything file=" + c.Target + " odd=" + c.Odd,
				fmt.Sprintf("%v succeeded but its output lacks the last block of the file (%q); the file has an unusual but legal line (%s) before block %d", args, want, c.Odd, where)})
		}
		return out
	case "longline":
		blocks := c.Base.Log
		ly := c.Base.LogLayout
		if c.Target == "db" {
			blocks, ly = c.Base.Book, c.Base.BookLayout
		}
		where := c.LongWhere
		if where > len(blocks) {
			where = len(blocks)
		}
		mk := func(n int) string {
			head := render(blocks[:where], ly)
			tail := render(blocks[where:], ly)
			line := "# " + strings.Repeat("x", n-2)
			if c.LongForm == "note" && where > 0 {
				line = ly.Indent + "# note: " + strings.Repeat("y", n)
			}
			sentinelDay := "2021/02/27:" + ly.EOL + ly.Indent + "SENTINEL" + ly.Sep + "7" + ly.EOL
			if c.Target == "db" {
				sentinelDay = "SENTINEL:" + ly.EOL + ly.Indent + "kcal" + ly.Sep + "7" + ly.EOL
			}
			return head + line + ly.EOL + tail + sentinelDay
		}
		lw, sw := cloneWorld(w), cloneWorld(w)
		lw.Files[fi].Data = mk(c.LongLen)
		sw.Files[fi].Data = mk(12)
		ob.planned("line_too_long")
		long, shortRun := ob.run(lw), ob.run(sw)
		if long.Panic != "" || shortRun.Panic != "" || shortRun.Failed {
			return nil
		}
		ob.fired("line_too_long")
		ob.probe("line_ge_64k")
		ob.nontrivial(hashOf(c.Base) + fmt.Sprint("long", c.LongLen, where, c.LongForm))
		if !long.Failed && long.Stdout != shortRun.Stdout {
			out = append(out, Finding{"C10 long-line-truncates-exit0" + sigTail,
				fmt.Sprintf("a %d-byte %s line before block %d: exit 0 but the report differs from the one for the same file with a short line (%s)", c.LongLen, c.LongForm, where, firstDiff(shortRun.Stdout, long.Stdout))})
		}
		return out
	}
	// "offsets"
	base := ob.run(w)
	if base.Panic != "" {
		return nil
	}
	// fault-free twin: delivery chunking must not change anything
	tw := cloneWorld(w)
	tw.Files[fi].Plan = ReadPlan{Chunk: c.Chunk, ChunkSeed: c.ChunkSeed, MaxChunk: c.MaxChunk, ZeroReads: c.ZeroReads, FaultAt: -1}
	if c.StatZero {
		tw.Files[fi].StatSize = new(int64)
		ob.planned("stat_size_zero")
		ob.fired("stat_size_zero")
	}
	twin := ob.run(tw)
	if twin.Stdout != base.Stdout || twin.Failed != base.Failed {
		out = append(out, Finding{"C10 delivery-dependent" + sigTail,
			fmt.Sprintf("chunking %s/%d changed the result: failed %v/%v, %s", c.Chunk, c.MaxChunk, base.Failed, twin.Failed, firstDiff(base.Stdout, twin.Stdout))})
	}
	data := w.Files[fi].Data
	offs, exhaustive := sweepOffsets(len(data)+1, c.MaxExhaustive, c.Sample, c.ChunkSeed, []int{0, 1, 4095, 4096, 4097, len(data) - 1, len(data)})
	if c.Only >= 0 {
		offs, exhaustive = []int{c.Only}, false
	}
	if exhaustive {
		ob.count("exhaustive_offset_sweeps", 1)
	}
	ch := hashOf(c.Base)
	for _, k := range offs {
		fw := cloneWorld(w)
		fw.Files[fi].Plan = ReadPlan{Chunk: c.Chunk, ChunkSeed: c.ChunkSeed, MaxChunk: c.MaxChunk, ZeroReads: c.ZeroReads, FaultAt: k, FaultKind: c.Fault, FaultWithData: c.WithData}
		ob.planned("read_" + c.Fault)
		r := ob.run(fw)
		if r.Stats.ReadFaultsFired == 0 || r.Panic != "" {
			continue
		}
		ob.fired("read_" + c.Fault)
		ob.nontrivial(fmt.Sprintf("%s@%d%s%v%s", ch, k, c.Fault, c.WithData, c.Target))
		if k == len(data) {
			ob.probe("fault_at_eof")
		}
		if !r.Failed {
			out = append(out, Finding{"C10 read-fault-exit0" + sigTail,
				fmt.Sprintf("reading %s failed with %s after %d of %d bytes (with_data=%v chunk=%s) and the command reported success with %d bytes of output", path, c.Fault, k, len(data), c.WithData, c.Chunk, len(r.Stdout))})
			c.Only = k
			return out
		}
	}
	return out
}

func (c *CaseC17) base() *CLIBase  { return &c.Base }
func (c *CaseC17) clone() baseCase { d := *c; d.Only = -1; return &d }
func (c *CaseC10) base() *CLIBase  { return &c.Base }
func (c *CaseC10) clone() baseCase { d := *c; d.Only = -1; return &d }
