// Package harness drives the instrumented hranoprovod-cli inside the verifsim
// simulator. It is copied next to a scratch copy of the repository (../repo)
// and compiled into one test binary, hrsim.test, that contains every
// property's runner.
package harness

import (
	"bytes"
	"crypto/sha256"
	"encoding/hex"
	"encoding/json"
	"fmt"
	"os"
	"runtime/debug"
	"strings"
	"sync/atomic"
	"syscall"
	"testing"
	"testing/synctest"
	"time"

	"github.com/aquilax/hranoprovod-cli/cmd/hranoprovod-cli/v3/hrapp"
	"github.com/aquilax/hranoprovod-cli/v3/verifsim"
	"github.com/urfave/cli/v2"
)

// World is the simulator's world type.
type World = verifsim.World

// Result is what one simulated execution of the whole CLI produced.
type Result struct {
	Stdout   string         `json:"stdout"`
	Stderr   string         `json:"stderr"`
	Err      string         `json:"err"`
	Failed   bool           `json:"failed"` // err != nil || panic: the in-process equivalent of a non-zero exit status
	Panic    string         `json:"panic,omitempty"`
	Stack    string         `json:"stack,omitempty"`
	ExitCode int            `json:"exit_code"` // recorded cli.OsExiter code, -1 if never called
	Trace    string         `json:"trace"`
	Stats    verifsim.Stats `json:"stats"`
	Events   []string       `json:"events,omitempty"`
}

var execCount int

// recentWorlds is the recent history of whole-CLI runs of this process: the replay unit when a
// failure needs state left behind by earlier runs (a package-level cache, a pool, a flag table that
// remembers). The library-level checks C01, C11 and C18 keep histories of their own kind.
var (
	recentWorlds []World
	keepWorlds   = cliProps[os.Getenv("HRSIM_PROP")] && os.Getenv("HRSIM_REPLAY") == ""
	cliProps     = map[string]bool{"C05": true, "C06": true, "C08": true, "C09": true, "C10": true, "C12": true, "C16": true, "C17": true}
)

// runningSince is the wall-clock start (unix nanoseconds) of the piece of the program under test that
// is executing right now, 0 when none is; the worker's watchdog goroutine reads it.
var runningSince atomic.Int64

// realNanos reads the real clock without touching time.Local (which Install assigns: the watchdog
// goroutine must not race with it) and without being fooled by a synctest bubble's fake clock.
func realNanos() int64 {
	var tv syscall.Timeval
	syscall.Gettimeofday(&tv)
	return tv.Sec*1e9 + tv.Usec*1e3
}

func enterSUT() { runningSince.Store(realNanos()) }
func leaveSUT() { runningSince.Store(0) }

// startWatchdog ends the process with status 124 when one execution of the code under test has been
// running for longer than limit of real time (three orders of magnitude above the normal 0.5 ms):
// that is the hang monitor. check attributes the death to the case in the worker's last-case file.
func startWatchdog(limit time.Duration) {
	go func() {
		for {
			time.Sleep(250 * time.Millisecond)
			if t := runningSince.Load(); t != 0 && time.Duration(realNanos()-t) > limit {
				fmt.Fprintf(os.Stderr, "hrsim: WATCHDOG: the code under test has not returned for %v - hang\n", limit)
				os.Exit(124)
			}
		}
	}()
}

// goSched: the instrumenter found goroutines (go func(){...}) in the code under test outside the
// channel parser. Then every whole-CLI run happens inside a synctest bubble under the cooperative
// scheduler, so that the order in which those goroutines run is the world's, not the host's.
var goSched = goSitesIn(os.Getenv("HRSIM_INSTR"), func(pos string) bool {
	return !strings.HasPrefix(pos, "parser/parser.go:") && !strings.Contains(pos, "/hrapp/")
})

func goSitesIn(path string, where func(pos string) bool) bool {
	if path == "" {
		return false
	}
	b, err := os.ReadFile(path)
	if err != nil {
		return false
	}
	var rep struct {
		Rewritten []struct{ Rule, Pos, What string } `json:"rewritten"`
	}
	if json.Unmarshal(b, &rep) != nil {
		return false
	}
	for _, s := range rep.Rewritten {
		if s.Rule == "R7" && s.What == "go func" && where(s.Pos) {
			return true
		}
	}
	return false
}

// libSched: the library itself (not only the commands) starts goroutines; then the library-level
// checks run every call under the cooperative scheduler too.
var libSched = goSitesIn(os.Getenv("HRSIM_INSTR"), func(pos string) bool {
	return !strings.HasPrefix(pos, "cmd/") && !strings.HasPrefix(pos, "parser/parser.go:")
})

// underScheduler runs f in a goroutine inside a synctest bubble under the seeded cooperative scheduler.
// It returns "" when f has returned, and a description of the hang when f has not returned although no
// goroutine can make progress any more (or none of them ever stops spinning).
func underScheduler(plan []int, f func()) (hang string) {
	finished := false
	deadlock := ""
	func() {
		defer func() {
			if r := recover(); r != nil {
				deadlock = fmt.Sprint(r)
			}
		}()
		synctest.Test(curT, func(t *testing.T) {
			sch := newCoop(plan)
			sch.install()
			defer sch.uninstall()
			done := make(chan struct{})
			go func() { f(); finished = true; close(done) }()
			idle := int64(0)
			// (the step bound ends a run in which some goroutine spins politely for ever)
			for steps := 0; idle < 1<<42 && steps < 2000000; steps++ {
				synctest.Wait()
				select {
				case <-done:
					return
				default:
				}
				if g := sch.takeWoken(); g != nil {
					idle = 0
					close(g.ch)
					continue
				}
				if g := sch.take(sch.next()); g != nil {
					idle = 0
					close(g.ch)
					continue
				}
				d := int64(1024)
				if idle > 0 {
					d = idle
				}
				idle += d
				time.Sleep(time.Duration(d))
			}
		})
	}()
	verifsim.SetYieldHook(nil)
	verifsim.SetSelectHook(nil)
	if !finished {
		return "hang: the call did not return and no goroutine can make progress (" + deadlock + ")"
	}
	return ""
}

// Exec runs the real application on world w: directly, or - when the code under test starts
// goroutines of its own - inside a bubble under a schedule derived from the world.
func Exec(w World) *Result {
	if keepWorlds {
		if len(recentWorlds) >= 60 {
			recentWorlds = append(recentWorlds[:0], recentWorlds[20:]...)
		}
		if n := len(w.Files); n == 0 || len(w.Files[0].Data)+len(w.Files[n-1].Data) < 100000 {
			recentWorlds = append(recentWorlds, cloneWorld(w))
		}
	}
	enterSUT() // (outside the bubble: inside it time.Now is the fake clock)
	defer leaveSUT()
	if !goSched {
		return execPlain(w)
	}
	h := verifsim.HashString(hashOf(w))
	plan := make([]int, 12)
	for i := range plan {
		plan[i] = int((h >> (uint(i) * 5)) & 7)
	}
	var res *Result
	deadlock := underScheduler(plan, func() { res = execPlain(w) })
	if res == nil {
		// the command never returned although nothing can move any more
		trace := "hang:no-world-installed"
		if st := verifsim.Current(); st != nil {
			trace = st.TraceHash()
			st.Uninstall()
		}
		res = &Result{ExitCode: -1, Failed: true, Trace: trace, Panic: deadlock}
	}
	return res
}

// execPlain runs the real application (hrapp.GetApp, the unmodified constructor of
// package main compiled under another package name) on world w.
func execPlain(w World) (res *Result) {
	execCount++
	res = &Result{ExitCode: -1}
	st, err := verifsim.Install(w)
	if err != nil {
		panic(harnessFault{fmt.Sprintf("cannot install world: %v", err)})
	}
	var stderr bytes.Buffer
	savedExiter, savedErrWriter := cli.OsExiter, cli.ErrWriter
	cli.OsExiter = func(code int) { res.ExitCode = code }
	cli.ErrWriter = &stderr
	defer func() {
		if r := recover(); r != nil {
			res.Panic = fmt.Sprint(r)
			res.Stack = string(debug.Stack())
			res.Failed = true
		}
		cli.OsExiter, cli.ErrWriter = savedExiter, savedErrWriter
		st.Uninstall()
		res.Stdout = string(st.Out)
		res.Stderr = stderr.String()
		res.Trace = st.TraceHash()
		res.Stats = st.Stats
		res.Events = st.Events
	}()
	app := hrapp.GetApp()
	app.Writer = verifsim.Stdout()
	app.ErrWriter = &stderr
	runErr := app.Run(w.Argv)
	if runErr != nil {
		res.Err = runErr.Error()
		res.Failed = true
	}
	return res
}

// harnessFault is panicked for trouble that is the machinery's, never the
// program's; it ends the worker with exit status 2.
type harnessFault struct{ msg string }

func (h harnessFault) Error() string { return h.msg }

func hashOf(v interface{}) string {
	b, err := json.Marshal(v)
	if err != nil {
		panic(harnessFault{"marshal: " + err.Error()})
	}
	s := sha256.Sum256(b)
	return hex.EncodeToString(s[:8])
}

func cloneWorld(w World) World {
	b, _ := json.Marshal(w)
	var c World
	if err := json.Unmarshal(b, &c); err != nil {
		panic(harnessFault{"clone: " + err.Error()})
	}
	return c
}

func short(s string, n int) string {
	if len(s) <= n {
		return s
	}
	return s[:n] + fmt.Sprintf("...(%d bytes)", len(s))
}

func firstDiff(a, b string) string {
	la, lb := strings.Split(a, "\n"), strings.Split(b, "\n")
	for i := 0; i < len(la) || i < len(lb); i++ {
		var x, y string
		if i < len(la) {
			x = la[i]
		}
		if i < len(lb) {
			y = lb[i]
		}
		if x != y {
			return fmt.Sprintf("line %d: %q vs %q", i+1, short(x, 120), short(y, 120))
		}
	}
	return "identical"
}

// FileSpec, ReadPlan, SinkPlan and OrderPlan are the simulator's plan types.
type (
	FileSpec  = verifsim.FileSpec
	ReadPlan  = verifsim.ReadPlan
	SinkPlan  = verifsim.SinkPlan
	OrderPlan = verifsim.OrderPlan
)

func noFaultWorld() World { return verifsim.NoFaultWorld() }
