module hrsim/harness

go 1.26

require (
	github.com/aquilax/hranoprovod-cli/cmd/hranoprovod-cli/v3 v3.0.0
	github.com/aquilax/hranoprovod-cli/v3 v3.0.0
	github.com/urfave/cli/v2 v2.23.7
	pgregory.net/rapid v1.3.0
)

replace github.com/aquilax/hranoprovod-cli/v3 => ../repo

replace github.com/aquilax/hranoprovod-cli/cmd/hranoprovod-cli/v3 => ../repo/cmd/hranoprovod-cli
