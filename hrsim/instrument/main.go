// Command instrument rewrites a scratch copy of hranoprovod-cli so that every
// source of nondeterminism the properties depend on goes through the verifsim
// runtime. The rewrites are type-directed (go/packages), not textual:
//
//	R1  for k, v := range <map>      -> range over verifsim.OrderString(site, m)
//	R2  os.Open / os.OpenFile / os.ReadFile -> verifsim.*
//	R3  os.Stat / os.Lstat           -> verifsim.*
//	R4  os.Stdout                    -> verifsim.Stdout()   (a *verifsim.File in sink mode)
//	R9  the type os.File             -> verifsim.File       (so that code which names the type keeps compiling)
//	R11 the types sync.Mutex, sync.RWMutex -> verifsim.Mutex, verifsim.RWMutex (acquiring is a schedule point; waiting blocks on a channel,
//	    which a synctest bubble recognises as durable, so a goroutine parked inside a critical section cannot stall the simulator)
//	R12 runtime.GOMAXPROCS(n), runtime.NumCPU() -> verifsim.GOMAXPROCS(n), verifsim.NumCPU() (the simulated machine has 8 processors whatever the worker's own setting)
//	    (R5 also covers time.Since and time.Until)
//	R13 verifsim.Yield(site) before a receive statement, before a select of receives, first in the body of a range over a channel
//	R14 verifsim.Yield(site+"+") after a send or receive statement, first in every communicating clause of a select, after sync.WaitGroup.Wait
//	    (a goroutine that wakes up parks again at once: one goroutine of the code under test runs at a time whatever GOMAXPROCS is)
//	R10 runtime.Gosched()            -> verifsim.Gosched()  (a politely spinning goroutine parks at the scheduler like at any other schedule point)
//	R5  time.Now                     -> verifsim.Now
//	R6  user.Current                 -> verifsim.CurrentUser
//	R7  ch <- v, select with a send case, go func(){...}  -> verifsim.Yield(site) inserted before
//	    the statement (resp. first in the goroutine body): the schedule hook of the goroutine simulator
//	R8  select with two or more communication cases -> the cases are first polled one by one in the
//	    order verifsim.SelectOrder(site, n) gives, then the original select runs: which of several
//	    ready cases is taken is decided by the schedule, not by the runtime's random choice
//
// It never touches /repo: it is pointed at directories of a scratch copy.
package main

import (
	"bytes"
	"encoding/json"
	"flag"
	"fmt"
	"go/ast"
	"go/format"
	"go/token"
	"go/types"
	"os"
	"path/filepath"
	"sort"
	"strings"

	"golang.org/x/tools/go/ast/astutil"
	"golang.org/x/tools/go/packages"
)

type site struct {
	Rule   string `json:"rule"`
	Pos    string `json:"pos"`
	What   string `json:"what"`
	Reason string `json:"reason,omitempty"`
}

type report struct {
	Rewritten []site         `json:"rewritten"`
	Declined  []site         `json:"declined"`
	Counts    map[string]int `json:"counts"`
	Files     []string       `json:"files"`
}

var (
	simPkg  = flag.String("simpkg", "github.com/aquilax/hranoprovod-cli/v3/verifsim", "import path of the runtime")
	root    = flag.String("root", "", "root of the scratch copy (site names are relative to it)")
	outJSON = flag.String("report", "", "where to write the JSON report")
)

var rep = report{Counts: map[string]int{}}

func main() {
	flag.Parse()
	if *root == "" || flag.NArg() == 0 {
		fmt.Fprintln(os.Stderr, "usage: instrument -root DIR [-report f.json] moduledir...")
		os.Exit(2)
	}
	for _, dir := range flag.Args() {
		if err := doModule(dir); err != nil {
			fmt.Fprintln(os.Stderr, "instrument:", err)
			os.Exit(2)
		}
	}
	sort.Slice(rep.Rewritten, func(i, j int) bool { return rep.Rewritten[i].Pos < rep.Rewritten[j].Pos })
	sort.Slice(rep.Declined, func(i, j int) bool { return rep.Declined[i].Pos < rep.Declined[j].Pos })
	sort.Strings(rep.Files)
	if *outJSON != "" {
		b, _ := json.MarshalIndent(rep, "", " ")
		if err := os.WriteFile(*outJSON, b, 0o644); err != nil {
			fmt.Fprintln(os.Stderr, "instrument:", err)
			os.Exit(2)
		}
	}
}

func doModule(dir string) error {
	cfg := &packages.Config{
		Mode: packages.NeedName | packages.NeedFiles | packages.NeedCompiledGoFiles | packages.NeedSyntax |
			packages.NeedTypes | packages.NeedTypesInfo | packages.NeedDeps | packages.NeedImports,
		Dir:   dir,
		Tests: false,
		Env:   os.Environ(),
	}
	pkgs, err := packages.Load(cfg, "./...")
	if err != nil {
		return err
	}
	for _, p := range pkgs {
		if len(p.Errors) > 0 {
			return fmt.Errorf("package %s does not type-check: %v", p.PkgPath, p.Errors[0])
		}
		if p.PkgPath == *simPkg {
			continue
		}
		for i, f := range p.Syntax {
			path := p.CompiledGoFiles[i]
			if strings.HasSuffix(path, "_test.go") {
				continue
			}
			if err := doFile(p, f, path); err != nil {
				return fmt.Errorf("%s: %v", path, err)
			}
		}
	}
	return nil
}

func relPos(fset *token.FileSet, p token.Pos) string {
	pos := fset.Position(p)
	r, err := filepath.Rel(*root, pos.Filename)
	if err != nil {
		r = pos.Filename
	}
	return fmt.Sprintf("%s:%d", filepath.ToSlash(r), pos.Line)
}

var redirect = map[string]map[string]string{
	"os":      {"Open": "Open", "OpenFile": "OpenFile", "ReadFile": "ReadFile", "Stat": "Stat", "Lstat": "Lstat"},
	"time":    {"Now": "Now", "Since": "Since", "Until": "Until"},
	"os/user": {"Current": "CurrentUser"},
	"runtime": {"Gosched": "Gosched", "GOMAXPROCS": "GOMAXPROCS", "NumCPU": "NumCPU"},
}
var ruleOf = map[string]string{"Open": "R2", "OpenFile": "R2", "ReadFile": "R2", "Stat": "R3", "Lstat": "R3", "Now": "R5", "Since": "R5", "Until": "R5", "Current": "R6", "Gosched": "R10", "GOMAXPROCS": "R12", "NumCPU": "R12"}

func doFile(p *packages.Package, f *ast.File, path string) error {
	fset := p.Fset
	info := p.TypesInfo
	changed := false
	note := func(list *[]site, s site) {
		*list = append(*list, s)
	}
	astutil.Apply(f, func(c *astutil.Cursor) bool {
		switch n := c.Node().(type) {
		case *ast.SendStmt:
			if c.Index() >= 0 { // a statement of a block (not the comm of a select case)
				c.InsertBefore(yieldCall(relPos(fset, n.Pos())))
				c.InsertAfter(yieldCall(relPos(fset, n.Pos()) + "+")) // (R14: and again once the send has gone through)
				note(&rep.Rewritten, site{"R7", relPos(fset, n.Pos()), "send", ""})
				rep.Counts["R7"]++
				changed = true
			}
		case *ast.SelectStmt:
			hasSend := false
			for _, cl := range n.Body.List {
				if cc, ok := cl.(*ast.CommClause); ok {
					if _, ok := cc.Comm.(*ast.SendStmt); ok {
						hasSend = true
					}
					if cc.Comm != nil && c.Index() >= 0 {
						// R14: whoever comes out of a communication parks again at once, so that exactly one
						// goroutine of the code under test runs at any time whatever the number of processors
						cc.Body = append([]ast.Stmt{yieldCall(relPos(fset, cc.Pos()) + "+")}, cc.Body...)
						rep.Counts["R14"]++
						changed = true
					}
				}
			}
			if hasSend && c.Index() >= 0 {
				c.InsertBefore(yieldCall(relPos(fset, n.Pos())))
				note(&rep.Rewritten, site{"R7", relPos(fset, n.Pos()), "select with send", ""})
				rep.Counts["R7"]++
				changed = true
			} else if !hasSend && c.Index() >= 0 && len(n.Body.List) > 0 {
				// R13: a receiver is a party of the schedule too (with a buffered channel the sender runs ahead
				// only if the receiver can be held back)
				c.InsertBefore(yieldCall(relPos(fset, n.Pos())))
				note(&rep.Rewritten, site{"R13", relPos(fset, n.Pos()), "select with receives", ""})
				rep.Counts["R13"]++
				changed = true
			}
		case *ast.ExprStmt:
			if u, ok := n.X.(*ast.UnaryExpr); ok && u.Op == token.ARROW && c.Index() >= 0 {
				c.InsertBefore(yieldCall(relPos(fset, n.Pos())))
				c.InsertAfter(yieldCall(relPos(fset, n.Pos()) + "+"))
				note(&rep.Rewritten, site{"R13", relPos(fset, n.Pos()), "receive", ""})
				rep.Counts["R13"]++
				changed = true
			}
			// R14: a goroutine that comes back from sync.WaitGroup.Wait parks again at once
			if call, ok := n.X.(*ast.CallExpr); ok && c.Index() >= 0 {
				if sel, ok := call.Fun.(*ast.SelectorExpr); ok && sel.Sel.Name == "Wait" {
					if fn, ok := info.Uses[sel.Sel].(*types.Func); ok && fn.Pkg() != nil && fn.Pkg().Path() == "sync" && strings.Contains(fn.FullName(), "WaitGroup") {
						c.InsertAfter(yieldCall(relPos(fset, n.Pos()) + "+"))
						note(&rep.Rewritten, site{"R14", relPos(fset, n.Pos()), "WaitGroup.Wait", ""})
						rep.Counts["R14"]++
						changed = true
					}
				}
			}
		case *ast.AssignStmt:
			if len(n.Rhs) == 1 && c.Index() >= 0 {
				if u, ok := n.Rhs[0].(*ast.UnaryExpr); ok && u.Op == token.ARROW {
					c.InsertBefore(yieldCall(relPos(fset, n.Pos())))
					c.InsertAfter(yieldCall(relPos(fset, n.Pos()) + "+"))
					note(&rep.Rewritten, site{"R13", relPos(fset, n.Pos()), "receive", ""})
					rep.Counts["R13"]++
					changed = true
				}
			}
		case *ast.GoStmt:
			spawn := &ast.AssignStmt{Lhs: []ast.Expr{ast.NewIdent("hrsimG")}, Tok: token.DEFINE,
				Rhs: []ast.Expr{&ast.CallExpr{Fun: &ast.SelectorExpr{X: ast.NewIdent("verifsim"), Sel: ast.NewIdent("Spawn")}}}}
			enter := &ast.ExprStmt{X: &ast.CallExpr{Fun: &ast.SelectorExpr{X: ast.NewIdent("verifsim"), Sel: ast.NewIdent("Enter")}, Args: []ast.Expr{ast.NewIdent("hrsimG")}}}
			if fl, ok := n.Call.Fun.(*ast.FuncLit); ok {
				if c.Index() >= 0 {
					// go func(...){...}(...)  ->  { hrsimG := verifsim.Spawn(); go func(...){ verifsim.Enter(hrsimG); verifsim.Yield(site); ... }(...) }
					fl.Body.List = append([]ast.Stmt{enter, yieldCall(relPos(fset, n.Pos()))}, fl.Body.List...)
					c.Replace(&ast.BlockStmt{List: []ast.Stmt{spawn, n}})
				} else {
					fl.Body.List = append([]ast.Stmt{yieldCall(relPos(fset, n.Pos()))}, fl.Body.List...)
				}
				note(&rep.Rewritten, site{"R7", relPos(fset, n.Pos()), "go func", ""})
				rep.Counts["R7"]++
				changed = true
			} else if c.Index() >= 0 {
				// go f(a, b)  ->  { hrsimF, hrsimA0, hrsimA1 := f, a, b; go func() { verifsim.Yield(site); hrsimF(hrsimA0, hrsimA1) }() }
				// (function value and arguments are still evaluated at the go statement; constants and nil stay inline)
				pos := relPos(fset, n.Pos())
				var lhs, rhs []ast.Expr
				lhs, rhs = append(lhs, ast.NewIdent("hrsimF")), append(rhs, n.Call.Fun)
				args := make([]ast.Expr, len(n.Call.Args))
				for i, a := range n.Call.Args {
					tv, known := info.Types[a]
					if !known || tv.Value != nil || tv.IsNil() {
						args[i] = a
						continue
					}
					name := fmt.Sprintf("hrsimA%d", i)
					lhs, rhs = append(lhs, ast.NewIdent(name)), append(rhs, a)
					args[i] = ast.NewIdent(name)
				}
				call := &ast.CallExpr{Fun: ast.NewIdent("hrsimF"), Args: args, Ellipsis: n.Call.Ellipsis}
				if n.Call.Ellipsis.IsValid() {
					call.Ellipsis = 1
				}
				lit := &ast.FuncLit{Type: &ast.FuncType{Params: &ast.FieldList{}}, Body: &ast.BlockStmt{List: []ast.Stmt{enter, yieldCall(pos), &ast.ExprStmt{X: call}}}}
				c.Replace(&ast.BlockStmt{List: []ast.Stmt{
					spawn,
					&ast.AssignStmt{Lhs: lhs, Tok: token.DEFINE, Rhs: rhs},
					&ast.GoStmt{Call: &ast.CallExpr{Fun: lit}},
				}})
				note(&rep.Rewritten, site{"R7", pos, "go func", ""})
				rep.Counts["R7"]++
				changed = true
				return false
			}
		case *ast.RangeStmt:
			t := info.TypeOf(n.X)
			if t == nil {
				return true
			}
			if _, isChan := t.Underlying().(*types.Chan); isChan && n.Body != nil {
				n.Body.List = append([]ast.Stmt{yieldCall(relPos(fset, n.Pos()))}, n.Body.List...)
				note(&rep.Rewritten, site{"R13", relPos(fset, n.Pos()), "range over channel", ""})
				rep.Counts["R13"]++
				changed = true
				return true
			}
			mt, ok := t.Underlying().(*types.Map)
			if !ok {
				return true
			}
			pos := relPos(fset, n.For)
			what := exprString(fset, n.X)
			if reason := rewriteRange(n, mt, pos); reason != "" {
				note(&rep.Declined, site{"R1", pos, what, reason})
				rep.Counts["R1_declined"]++
				return true
			}
			note(&rep.Rewritten, site{"R1", pos, what, ""})
			rep.Counts["R1"]++
			changed = true
		case *ast.SelectorExpr:
			obj := info.Uses[n.Sel]
			if obj == nil || obj.Pkg() == nil {
				return true
			}
			if _, isPkg := info.Uses[identOf(n.X)].(*types.PkgName); !isPkg {
				return true
			}
			pkg, name := obj.Pkg().Path(), obj.Name()
			if _, isType := obj.(*types.TypeName); isType && pkg == "sync" && (name == "Mutex" || name == "RWMutex") {
				at := relPos(fset, n.Pos())
				n.X = ast.NewIdent("verifsim")
				note(&rep.Rewritten, site{"R11", at, "sync." + name, ""})
				rep.Counts["R11"]++
				changed = true
				return false
			}
			if _, isType := obj.(*types.TypeName); isType && pkg == "os" && name == "File" {
				at := relPos(fset, n.Pos())
				n.X = ast.NewIdent("verifsim")
				note(&rep.Rewritten, site{"R9", at, "os.File", ""})
				rep.Counts["R9"]++
				changed = true
				return false
			}
			if pkg == "os" && name == "Stdout" {
				if _, isVar := obj.(*types.Var); isVar {
					if _, lhs := c.Parent().(*ast.AssignStmt); lhs && c.Name() == "Lhs" {
						note(&rep.Declined, site{"R4", relPos(fset, n.Pos()), "os.Stdout", "assigned to"})
						rep.Counts["R4_declined"]++
						return true
					}
					c.Replace(&ast.CallExpr{Fun: &ast.SelectorExpr{X: ast.NewIdent("verifsim"), Sel: ast.NewIdent("Stdout")}})
					note(&rep.Rewritten, site{"R4", relPos(fset, n.Pos()), "os.Stdout", ""})
					rep.Counts["R4"]++
					changed = true
					return false
				}
			}
			if m, ok := redirect[pkg]; ok {
				if to, ok := m[name]; ok {
					if _, isFunc := obj.(*types.Func); isFunc {
						at := relPos(fset, n.Pos())
						n.X = ast.NewIdent("verifsim")
						n.Sel = ast.NewIdent(to)
						r := ruleOf[name]
						note(&rep.Rewritten, site{r, at, pkg + "." + name, ""})
						rep.Counts[r]++
						changed = true
						return false
					}
				}
			}
		}
		return true
	}, nil)
	// second pass (R8), after R1-R7 so that the duplicated case bodies are not rewritten twice
	astutil.Apply(f, func(c *astutil.Cursor) bool {
		n, ok := c.Node().(*ast.SelectStmt)
		if !ok {
			return true
		}
		pos := relPos(fset, n.Pos())
		if c.Index() < 0 {
			note(&rep.Declined, site{"R8", pos, "select", "not a statement of a block (labelled?)"})
			rep.Counts["R8_declined"]++
			return true
		}
		staged, reason := stageSelect(n, pos)
		if reason == "skip" {
			return true
		}
		if reason != "" {
			note(&rep.Declined, site{"R8", pos, "select", reason})
			rep.Counts["R8_declined"]++
			return true
		}
		c.Replace(staged)
		note(&rep.Rewritten, site{"R8", pos, "select", ""})
		rep.Counts["R8"]++
		changed = true
		return false
	}, nil)
	if !changed {
		return nil
	}
	astutil.AddImport(fset, f, *simPkg)
	for _, imp := range []string{"os", "time", "os/user", "runtime", "sync"} {
		if !astutil.UsesImport(f, imp) {
			astutil.DeleteImport(fset, f, imp)
		}
	}
	var buf bytes.Buffer
	if err := format.Node(&buf, fset, f); err != nil {
		return err
	}
	rel, _ := filepath.Rel(*root, path)
	rep.Files = append(rep.Files, filepath.ToSlash(rel))
	return os.WriteFile(path, buf.Bytes(), 0o644)
}

// pureComm reports whether evaluating the communication of a select case more than once is harmless.
func pureComm(s ast.Stmt) bool {
	ok := true
	ast.Inspect(s, func(n ast.Node) bool {
		call, isCall := n.(*ast.CallExpr)
		if !isCall {
			return true
		}
		switch fn := call.Fun.(type) {
		case *ast.SelectorExpr:
			if x, isID := fn.X.(*ast.Ident); isID && x.Name == "time" && (fn.Sel.Name == "After" || fn.Sel.Name == "Tick") {
				return true
			}
			if fn.Sel.Name == "Done" && len(call.Args) == 0 {
				return true
			}
		case *ast.Ident:
			if fn.Name == "len" || fn.Name == "cap" {
				return true
			}
		}
		ok = false
		return false
	})
	return ok
}

// stageSelect builds
//
//	{
//		hrsimOrd, hrsimTaken := verifsim.SelectOrder(site, n), false
//		if !hrsimTaken { switch verifsim.Pick(hrsimOrd, 0) { case 0: select { case <comm0>: hrsimTaken = true; body0; default: } case 1: ... } }
//		... one such stage per communication case ...
//		if !hrsimTaken { <the original select> }
//	}
//
// No loop is introduced, so break/continue in the case bodies keep their meaning. With no
// scheduler installed SelectOrder returns nil, every Pick is -1 and only the original select runs.
func stageSelect(n *ast.SelectStmt, pos string) (ast.Stmt, string) {
	var comms []*ast.CommClause
	for _, cl := range n.Body.List {
		cc := cl.(*ast.CommClause)
		if cc.Comm != nil {
			comms = append(comms, cc)
		}
	}
	if len(comms) < 2 {
		return nil, "skip"
	}
	for _, cc := range comms {
		if !pureComm(cc.Comm) {
			return nil, "a communication clause calls a function: evaluating it more than once could change behaviour"
		}
	}
	id := ast.NewIdent
	taken := func() ast.Stmt {
		return &ast.AssignStmt{Lhs: []ast.Expr{id("hrsimTaken")}, Tok: token.ASSIGN, Rhs: []ast.Expr{id("true")}}
	}
	notTaken := func(body ...ast.Stmt) ast.Stmt {
		return &ast.IfStmt{Cond: &ast.UnaryExpr{Op: token.NOT, X: id("hrsimTaken")}, Body: &ast.BlockStmt{List: body}}
	}
	block := &ast.BlockStmt{}
	block.List = append(block.List, &ast.AssignStmt{
		Lhs: []ast.Expr{id("hrsimOrd"), id("hrsimTaken")}, Tok: token.DEFINE,
		Rhs: []ast.Expr{&ast.CallExpr{Fun: &ast.SelectorExpr{X: id("verifsim"), Sel: id("SelectOrder")},
			Args: []ast.Expr{&ast.BasicLit{Kind: token.STRING, Value: fmt.Sprintf("%q", pos)}, &ast.BasicLit{Kind: token.INT, Value: fmt.Sprint(len(comms))}}}, id("false")},
	})
	for stage := range comms {
		sw := &ast.SwitchStmt{
			Tag: &ast.CallExpr{Fun: &ast.SelectorExpr{X: id("verifsim"), Sel: id("Pick")},
				Args: []ast.Expr{id("hrsimOrd"), &ast.BasicLit{Kind: token.INT, Value: fmt.Sprint(stage)}}},
			Body: &ast.BlockStmt{},
		}
		for i, cc := range comms {
			poll := &ast.SelectStmt{Body: &ast.BlockStmt{List: []ast.Stmt{
				&ast.CommClause{Comm: cc.Comm, Body: append([]ast.Stmt{taken()}, cc.Body...)},
				&ast.CommClause{},
			}}}
			sw.Body.List = append(sw.Body.List, &ast.CaseClause{List: []ast.Expr{&ast.BasicLit{Kind: token.INT, Value: fmt.Sprint(i)}}, Body: []ast.Stmt{poll}})
		}
		block.List = append(block.List, notTaken(sw))
	}
	block.List = append(block.List, notTaken(&ast.SelectStmt{Body: n.Body}))
	if terminatingSelect(n) {
		// the select was a terminating statement (it may be the last statement of a function with results):
		// every clause leaves the function, so nothing after it is ever reached - say so to the compiler
		block.List = append(block.List, &ast.ExprStmt{X: &ast.CallExpr{Fun: id("panic"), Args: []ast.Expr{&ast.BasicLit{Kind: token.STRING, Value: `"hrsim: unreachable"`}}}})
	}
	return block, ""
}

// terminatingSelect is a conservative version of the language's rule: every clause ends in a return or
// a call of panic, and no clause contains a break that could refer to the select.
func terminatingSelect(n *ast.SelectStmt) bool {
	for _, cl := range n.Body.List {
		cc := cl.(*ast.CommClause)
		if len(cc.Body) == 0 {
			return false
		}
		switch last := cc.Body[len(cc.Body)-1].(type) {
		case *ast.ReturnStmt:
		case *ast.ExprStmt:
			call, ok := last.X.(*ast.CallExpr)
			if !ok {
				return false
			}
			if f, ok := call.Fun.(*ast.Ident); !ok || f.Name != "panic" {
				return false
			}
		default:
			return false
		}
		breaks := false
		for _, st := range cc.Body {
			ast.Inspect(st, func(x ast.Node) bool {
				switch b := x.(type) {
				case *ast.ForStmt, *ast.RangeStmt, *ast.SwitchStmt, *ast.TypeSwitchStmt, *ast.SelectStmt, *ast.FuncLit:
					// an unlabelled break in there refers to that statement; a labelled one is found below
					ast.Inspect(b, func(y ast.Node) bool {
						if br, ok := y.(*ast.BranchStmt); ok && br.Tok == token.BREAK && br.Label != nil {
							breaks = true
						}
						return true
					})
					return false
				case *ast.BranchStmt:
					if b.Tok == token.BREAK {
						breaks = true
					}
				}
				return true
			})
		}
		if breaks {
			return false
		}
	}
	return true
}

func yieldCall(pos string) ast.Stmt {
	return &ast.ExprStmt{X: &ast.CallExpr{
		Fun:  &ast.SelectorExpr{X: ast.NewIdent("verifsim"), Sel: ast.NewIdent("Yield")},
		Args: []ast.Expr{&ast.BasicLit{Kind: token.STRING, Value: fmt.Sprintf("%q", pos)}},
	}}
}

func identOf(e ast.Expr) *ast.Ident {
	if id, ok := e.(*ast.Ident); ok {
		return id
	}
	return &ast.Ident{}
}

func exprString(fset *token.FileSet, e ast.Expr) string {
	var b bytes.Buffer
	_ = format.Node(&b, fset, e)
	return b.String()
}

// clone copies a side-effect free operand (identifiers, field selections,
// dereferences, parentheses). Anything else is refused.
func clone(e ast.Expr) (ast.Expr, bool) {
	switch x := e.(type) {
	case *ast.Ident:
		return ast.NewIdent(x.Name), true
	case *ast.SelectorExpr:
		in, ok := clone(x.X)
		if !ok {
			return nil, false
		}
		return &ast.SelectorExpr{X: in, Sel: ast.NewIdent(x.Sel.Name)}, true
	case *ast.StarExpr:
		in, ok := clone(x.X)
		if !ok {
			return nil, false
		}
		return &ast.StarExpr{X: in}, true
	case *ast.ParenExpr:
		in, ok := clone(x.X)
		if !ok {
			return nil, false
		}
		return &ast.ParenExpr{X: in}, true
	}
	return nil, false
}

func mentions(e ast.Expr, name string) bool {
	found := false
	ast.Inspect(e, func(n ast.Node) bool {
		if id, ok := n.(*ast.Ident); ok && id.Name == name {
			found = true
		}
		return true
	})
	return found
}

func identName(e ast.Expr) (string, bool) {
	if e == nil {
		return "_", true
	}
	id, ok := e.(*ast.Ident)
	if !ok {
		return "", false
	}
	return id.Name, true
}

// rewriteRange turns `for k, v := range m {B}` into
//
//	for _, k := range verifsim.OrderString(site, m) {
//		v, hrsimOK := m[k]
//		if !hrsimOK { continue }   // entry deleted during the iteration is not produced
//		B
//	}
//
// keeping the statement node (and therefore any label) in place.
func rewriteRange(n *ast.RangeStmt, mt *types.Map, pos string) string {
	if b, ok := mt.Key().(*types.Basic); !ok || b.Kind() != types.String {
		return "key type " + mt.Key().String() + " is not string"
	}
	if n.Tok != token.DEFINE && !(n.Key == nil && n.Value == nil) {
		return "range with = instead of :="
	}
	kName, ok1 := identName(n.Key)
	vName, ok2 := identName(n.Value)
	if !ok1 || !ok2 {
		return "key or value is not an identifier"
	}
	m1, ok := clone(n.X)
	if !ok {
		return "operand is not a plain variable or field"
	}
	m2, _ := clone(n.X)
	if kName == "_" {
		kName = "hrsimK"
	}
	if mentions(n.X, kName) {
		return "key variable shadows the operand"
	}
	call := &ast.CallExpr{
		Fun:  &ast.SelectorExpr{X: ast.NewIdent("verifsim"), Sel: ast.NewIdent("OrderString")},
		Args: []ast.Expr{&ast.BasicLit{Kind: token.STRING, Value: fmt.Sprintf("%q", pos)}, m1},
	}
	lhsV := ast.NewIdent(vName)
	index := &ast.IndexExpr{X: m2, Index: ast.NewIdent(kName)}
	var pre []ast.Stmt
	if vName == "_" {
		pre = []ast.Stmt{&ast.IfStmt{
			Init: &ast.AssignStmt{Lhs: []ast.Expr{ast.NewIdent("_"), ast.NewIdent("hrsimOK")}, Tok: token.DEFINE, Rhs: []ast.Expr{index}},
			Cond: &ast.UnaryExpr{Op: token.NOT, X: ast.NewIdent("hrsimOK")},
			Body: &ast.BlockStmt{List: []ast.Stmt{&ast.BranchStmt{Tok: token.CONTINUE}}},
		}}
	} else {
		pre = []ast.Stmt{
			&ast.AssignStmt{Lhs: []ast.Expr{lhsV, ast.NewIdent("hrsimOK")}, Tok: token.DEFINE, Rhs: []ast.Expr{index}},
			&ast.IfStmt{
				Cond: &ast.UnaryExpr{Op: token.NOT, X: ast.NewIdent("hrsimOK")},
				Body: &ast.BlockStmt{List: []ast.Stmt{&ast.BranchStmt{Tok: token.CONTINUE}}},
			},
		}
	}
	n.Key = ast.NewIdent("_")
	n.Value = ast.NewIdent(kName)
	n.Tok = token.DEFINE
	n.X = call
	n.Body.List = append(pre, n.Body.List...)
	return ""
}
