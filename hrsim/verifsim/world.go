// Package verifsim is the simulator runtime that the instrumented scratch copy
// of hranoprovod-cli is linked against. It owns every source of nondeterminism
// and failure the properties depend on: the visiting order of maps, the files
// the program opens (contents, delivery chunking, read faults), the output sink
// (write faults), the wall clock, the home directory. It is stdlib-only and
// written in the go1.17 language subset because it is compiled as part of the
// library module.
//
// With no world installed every entry point falls through to the real
// operating system (and maps are visited in ascending key order), so the
// repository's own tests run unchanged on the instrumented copy.
package verifsim

// World is plain data: everything that determines one simulated execution.
// A replay file is a World plus the verdict that was reached on it.
type World struct {
	Files []FileSpec        `json:"files"`
	Cwd   string            `json:"cwd"`
	Home  string            `json:"home"`
	Env   map[string]string `json:"env,omitempty"`
	// Zone is an IANA name, "UTC", or "FIXED:+hh:mm".
	Zone string `json:"zone"`
	// ClockUnixNano is the instant of the first Now(); every call advances it by TickNano.
	ClockUnixNano int64     `json:"clock_unix_nano"`
	TickNano      int64     `json:"tick_nano"`
	Argv          []string  `json:"argv"`
	Sink          SinkPlan  `json:"sink"`
	Order         OrderPlan `json:"order"`
}

// FileSpec is one name on the simulated disk.
type FileSpec struct {
	Path string `json:"path"` // absolute, or relative to Cwd
	// Kind: "file", "symlink" (a link to a regular file with these contents), "dir", "eacces" (exists,
	// open fails), "statfail" (stat fails with EIO)
	// StatSize, if not nil, is the size Stat reports (a FIFO or /dev/stdin says 0, a growing file an old size)
	StatSize *int64   `json:"stat_size,omitempty"`
	Kind     string   `json:"kind"`
	Data     string   `json:"data"` // contents (Go string, may hold arbitrary bytes)
	Plan     ReadPlan `json:"plan"`
}

// ReadPlan decides how the bytes of one file are delivered to the program.
type ReadPlan struct {
	// Chunk: "" or "whole" (as much as the caller asks for), "one" (1 byte),
	// "seeded" (1..MaxChunk bytes from ChunkSeed), "fixed" (MaxChunk bytes).
	Chunk     string `json:"chunk,omitempty"`
	ChunkSeed uint64 `json:"chunk_seed,omitempty"`
	MaxChunk  int    `json:"max_chunk,omitempty"`
	// ZeroReads is the number of (0, nil) results injected before real data (bounded).
	ZeroReads int `json:"zero_reads,omitempty"`
	// DelayNano: every read that delivers data takes this long on the simulated clock (a slow pipe, a
	// stopped writer): code that looks at the time between records meets large gaps.
	DelayNano int64 `json:"delay_nano,omitempty"`
	// FaultAt >= 0: the reader fails once FaultAt bytes have been delivered. -1: never.
	FaultAt int `json:"fault_at"`
	// FaultKind: "EIO", "UNEXPECTED_EOF", "CUSTOM", "EISDIR".
	FaultKind string `json:"fault_kind,omitempty"`
	// FaultWithData: the failing call returns the last good bytes together with the error.
	FaultWithData bool `json:"fault_with_data,omitempty"`
}

// SinkPlan decides when standard output starts failing.
type SinkPlan struct {
	// FailAt >= 0: after FailAt bytes have been accepted every write fails. -1: never.
	FailAt int `json:"fail_at"`
	// Kind: "ENOSPC", "EPIPE" (from the offset on every write fails) or "EAGAIN" (only the write that crosses the offset fails).
	Kind string `json:"kind,omitempty"`
	// Short: the failing call accepts the bytes up to FailAt and returns (n < len, err);
	// otherwise it accepts nothing and returns (0, err).
	Short bool `json:"short,omitempty"`
}

// OrderPlan is the map-order schedule.
type OrderPlan struct {
	// Mode: "asc", "desc", "rotate", "shuffle", "swap", "explicit".
	Mode string `json:"mode"`
	Seed uint64 `json:"seed,omitempty"`
	// Arg: rotation amount / index of the adjacent transposition.
	Arg int `json:"arg,omitempty"`
	// Explicit[i] is the permutation (of the ascending key list) used by the i-th
	// ordering decision of the run; a missing or ill-sized entry means ascending.
	Explicit [][]int `json:"explicit,omitempty"`
}

// NoFaultWorld returns the plans that inject nothing.
func NoFaultWorld() World {
	return World{
		Cwd: "/sim/cwd", Home: "/sim/home", Zone: "UTC",
		ClockUnixNano: 1700000000 * 1000000000, TickNano: 1000000,
		Sink:  SinkPlan{FailAt: -1},
		Order: OrderPlan{Mode: "asc"},
	}
}
