package verifsim

// Rng is a splitmix64 stream. Everything random inside a simulated run derives
// from World fields through Mix, so a World replays exactly.
type Rng struct{ s uint64 }

// NewRng seeds a stream.
func NewRng(seed uint64) *Rng { return &Rng{s: seed} }

// Uint64 returns the next value.
func (r *Rng) Uint64() uint64 {
	r.s += 0x9e3779b97f4a7c15
	z := r.s
	z = (z ^ (z >> 30)) * 0xbf58476d1ce4e5b9
	z = (z ^ (z >> 27)) * 0x94d049bb133111eb
	return z ^ (z >> 31)
}

// Intn returns a value in [0, n).
func (r *Rng) Intn(n int) int {
	if n <= 1 {
		return 0
	}
	return int(r.Uint64() % uint64(n))
}

// Mix hashes several values into one seed (order-sensitive).
func Mix(vs ...uint64) uint64 {
	h := uint64(0x243f6a8885a308d3)
	for _, v := range vs {
		h ^= v + 0x9e3779b97f4a7c15 + (h << 6) + (h >> 2)
		h = NewRng(h).Uint64()
	}
	return h
}

// HashString is FNV-1a.
func HashString(s string) uint64 {
	h := uint64(14695981039346656037)
	for i := 0; i < len(s); i++ {
		h ^= uint64(s[i])
		h *= 1099511628211
	}
	return h
}
