package verifsim

import (
	"crypto/sha256"
	"encoding/hex"
	"errors"
	"fmt"
	"io"
	"io/fs"
	"os"
	"os/user"
	"path"
	"reflect"
	"runtime"
	"sort"
	"strconv"
	"strings"
	"sync"
	"syscall"
	"time"
)

// State is one installed world plus everything recorded while it runs.
type State struct {
	W     World
	files map[string]*FileSpec
	loc   *time.Location
	now   int64

	Out               []byte // bytes accepted by the sink
	sinkFailed        bool
	sinkTransientDone bool

	// recorded
	Events      []string
	EventsTotal int
	hash        interface {
		io.Writer
		Sum([]byte) []byte
	}
	Stats Stats

	orderCalls int
	savedEnv   []string
	savedLocal *time.Location
}

// Stats are the "what actually happened" counters of one run.
type Stats struct {
	Opens, OpenErrors, Reads, Closes, Stats int
	ReadFaultsFired                         int
	ReadFaultPaths                          []string
	SinkFaultFired                          bool
	SinkWrites                              int
	SinkFirstFailInWrite                    int // index of the sink write that failed first (1-based), 0 = none
	ClockReads                              int
	OrderDecisions                          int
	OrderNontrivial                         int      // decisions over >= 2 keys
	OrderPerms                              []string // "site#n!perm" of nontrivial decisions
	MaxLineProbe                            int
}

const maxEvents = 4000

var cur *State

// simMu serialises the simulator's own bookkeeping: the code under test may call into it from
// several goroutines (the cooperative scheduler lets a released goroutine run alongside one that
// has not blocked yet).
var simMu sync.Mutex

// Current returns the installed state (nil when running on the real OS).
func Current() *State { return cur }

// Install makes w the world the instrumented program runs in. It also sets the
// real process environment and time.Local, which are process-global: one
// simulated run at a time per process.
func Install(w World) (*State, error) {
	st := &State{W: w, files: map[string]*FileSpec{}, now: w.ClockUnixNano, hash: sha256.New()}
	for i := range w.Files {
		f := &st.W.Files[i]
		st.files[st.abs(f.Path)] = f
	}
	loc, err := loadZone(w.Zone)
	if err != nil {
		return nil, err
	}
	st.loc = loc
	st.savedLocal = time.Local
	time.Local = loc
	st.savedEnv = os.Environ()
	os.Clearenv()
	keys := make([]string, 0, len(w.Env))
	for k := range w.Env {
		keys = append(keys, k)
	}
	sort.Strings(keys)
	for _, k := range keys {
		os.Setenv(k, w.Env[k])
	}
	cur = st
	return st, nil
}

// Uninstall restores the process-global state.
func (st *State) Uninstall() {
	if cur == st {
		cur = nil
	}
	time.Local = st.savedLocal
	os.Clearenv()
	for _, kv := range st.savedEnv {
		if i := strings.IndexByte(kv, '='); i > 0 {
			os.Setenv(kv[:i], kv[i+1:])
		}
	}
}

func loadZone(z string) (*time.Location, error) {
	switch {
	case z == "" || z == "UTC":
		return time.UTC, nil
	case strings.HasPrefix(z, "FIXED:"):
		s := z[len("FIXED:"):]
		if len(s) != 6 || (s[0] != '+' && s[0] != '-') || s[3] != ':' {
			return nil, fmt.Errorf("verifsim: bad fixed zone %q", z)
		}
		h, e1 := strconv.Atoi(s[1:3])
		m, e2 := strconv.Atoi(s[4:6])
		if e1 != nil || e2 != nil {
			return nil, fmt.Errorf("verifsim: bad fixed zone %q", z)
		}
		off := h*3600 + m*60
		if s[0] == '-' {
			off = -off
		}
		return time.FixedZone(s, off), nil
	}
	return time.LoadLocation(z)
}

func (st *State) abs(p string) string {
	if p == "" {
		return ""
	}
	if !strings.HasPrefix(p, "/") {
		p = st.W.Cwd + "/" + p
	}
	return path.Clean(p)
}

func (st *State) event(format string, a ...interface{}) {
	s := fmt.Sprintf(format, a...)
	st.EventsTotal++
	io.WriteString(st.hash, s)
	io.WriteString(st.hash, "\n")
	if len(st.Events) < maxEvents {
		st.Events = append(st.Events, s)
	}
}

// TraceHash is the SHA-256 of the event log so far: two runs are "the same
// execution" iff their trace hashes are equal.
func (st *State) TraceHash() string {
	return hex.EncodeToString(st.hash.Sum(nil))
}

// ---------------------------------------------------------------- map order

// OrderString returns the keys of m (a map with string keys) in the order the
// schedule dictates. The base order is ascending, so the schedule - never the Go
// runtime - decides.
func OrderString(site string, m interface{}) []string {
	v := reflect.ValueOf(m)
	keys := make([]string, 0, v.Len())
	for _, k := range v.MapKeys() {
		keys = append(keys, k.String())
	}
	sort.Strings(keys)
	st := cur
	if st == nil {
		return keys
	}
	return st.order(site, keys)
}

func (st *State) order(site string, keys []string) []string {
	simMu.Lock()
	defer simMu.Unlock()
	call := st.orderCalls
	st.orderCalls++
	n := len(keys)
	perm := make([]int, n)
	for i := range perm {
		perm[i] = i
	}
	p := st.W.Order
	switch p.Mode {
	case "", "asc":
	case "desc":
		for i := range perm {
			perm[i] = n - 1 - i
		}
	case "rotate":
		if n > 0 {
			r := ((p.Arg % n) + n) % n
			for i := range perm {
				perm[i] = (i + r) % n
			}
		}
	case "swap":
		if n >= 2 {
			i := ((p.Arg % (n - 1)) + (n - 1)) % (n - 1)
			perm[i], perm[i+1] = perm[i+1], perm[i]
		}
	case "shuffle":
		r := NewRng(Mix(p.Seed, HashString(site), uint64(call)))
		for i := n - 1; i > 0; i-- {
			j := r.Intn(i + 1)
			perm[i], perm[j] = perm[j], perm[i]
		}
	case "explicit":
		if call < len(p.Explicit) && validPerm(p.Explicit[call], n) {
			copy(perm, p.Explicit[call])
		}
	}
	out := make([]string, n)
	for i, j := range perm {
		out[i] = keys[j]
	}
	st.Stats.OrderDecisions++
	if n >= 2 {
		st.Stats.OrderNontrivial++
		if len(st.Stats.OrderPerms) < 64 {
			st.Stats.OrderPerms = append(st.Stats.OrderPerms, fmt.Sprintf("%s!%v", site, perm))
		}
	}
	st.event("order %s #%d n=%d perm=%v", site, call, n, perm)
	return out
}

func validPerm(p []int, n int) bool {
	if len(p) != n {
		return false
	}
	seen := make([]bool, n)
	for _, x := range p {
		if x < 0 || x >= n || seen[x] {
			return false
		}
		seen[x] = true
	}
	return true
}

// ---------------------------------------------------------------- clock, user

// Now is the simulated wall clock; every call advances it by one tick so that
// "two calls return the same instant" is never silently assumed.
func Now() time.Time {
	st := cur
	if st == nil {
		return time.Now()
	}
	simMu.Lock()
	defer simMu.Unlock()
	t := time.Unix(0, st.now).In(st.loc)
	st.now += st.W.TickNano
	st.Stats.ClockReads++
	st.event("now %d", t.UnixNano())
	return t
}

// Since and Until stand in for time.Since and time.Until (which read the clock themselves).
func Since(t time.Time) time.Duration { return Now().Sub(t) }
func Until(t time.Time) time.Duration { return t.Sub(Now()) }

// CurrentUser stands in for user.Current.
func CurrentUser() (*user.User, error) {
	st := cur
	if st == nil {
		return user.Current()
	}
	if st.W.Home == "" {
		return nil, errors.New("verifsim: no current user")
	}
	return &user.User{Uid: "1000", Gid: "1000", Username: "sim", Name: "sim", HomeDir: st.W.Home}, nil
}

// ---------------------------------------------------------------- disk

// File is what verifsim.Open returns in place of *os.File.
type File struct {
	sink bool
	real *os.File
	st   *State
	spec *FileSpec
	name string
	off  int
	rng  *Rng
	zero int
	fail error
	done bool
}

type fileInfo struct {
	name string
	size int64
	dir  bool
	link bool
}

func (fi fileInfo) Name() string { return fi.name }
func (fi fileInfo) Size() int64  { return fi.size }
func (fi fileInfo) Mode() fs.FileMode {
	if fi.link {
		return fs.ModeSymlink | 0o777
	}
	if fi.dir {
		return fs.ModeDir | 0o755
	}
	return 0o644
}
func (fi fileInfo) ModTime() time.Time { return time.Unix(1600000000, 0) }
func (fi fileInfo) IsDir() bool        { return fi.dir }
func (fi fileInfo) Sys() interface{}   { return nil }

func (st *State) lookup(op, name string) (*FileSpec, string, error) {
	a := st.abs(name)
	if a == os.DevNull {
		return &FileSpec{Path: a, Kind: "file", Plan: ReadPlan{FaultAt: -1}}, a, nil
	}
	spec, ok := st.files[a]
	if !ok {
		// a directory exists implicitly when some file lives below it
		for p := range st.files {
			if strings.HasPrefix(p, a+"/") {
				return &FileSpec{Path: a, Kind: "dir", Plan: ReadPlan{FaultAt: -1}}, a, nil
			}
		}
		return nil, a, &fs.PathError{Op: op, Path: name, Err: syscall.ENOENT}
	}
	return spec, a, nil
}

// Stat stands in for os.Stat.
func Stat(name string) (os.FileInfo, error) {
	st := cur
	if st == nil {
		return os.Stat(name)
	}
	simMu.Lock()
	defer simMu.Unlock()
	st.Stats.Stats++
	spec, a, err := st.lookup("stat", name)
	if err != nil {
		st.event("stat %s ENOENT", a)
		return nil, err
	}
	if spec.Kind == "statfail" {
		st.event("stat %s EIO", a)
		return nil, &fs.PathError{Op: "stat", Path: name, Err: syscall.EIO}
	}
	st.event("stat %s %s", a, spec.Kind)
	size := int64(len(spec.Data))
	if spec.StatSize != nil {
		size = *spec.StatSize
	}
	return fileInfo{name: path.Base(a), size: size, dir: spec.Kind == "dir"}, nil
}

// Lstat stands in for os.Lstat.
func Lstat(name string) (os.FileInfo, error) {
	st := cur
	if st == nil {
		return os.Lstat(name)
	}
	fi, err := Stat(name)
	if err != nil {
		return fi, err
	}
	if spec, a, lerr := st.lookup("lstat", name); lerr == nil && spec.Kind == "symlink" {
		// the name is a symbolic link to a regular file with these contents: Stat follows it, Lstat does not
		return fileInfo{name: path.Base(a), size: 24, link: true}, nil
	}
	return fi, nil
}

// Open stands in for os.Open.
func Open(name string) (*File, error) {
	st := cur
	if st == nil {
		f, err := os.Open(name)
		if err != nil {
			return nil, err
		}
		return &File{real: f, name: name}, nil
	}
	simMu.Lock()
	defer simMu.Unlock()
	st.Stats.Opens++
	spec, a, err := st.lookup("open", name)
	if err != nil {
		st.Stats.OpenErrors++
		st.event("open %s ENOENT", a)
		return nil, err
	}
	if spec.Kind == "eacces" {
		st.Stats.OpenErrors++
		st.event("open %s EACCES", a)
		return nil, &fs.PathError{Op: "open", Path: name, Err: syscall.EACCES}
	}
	st.event("open %s %s len=%d", a, spec.Kind, len(spec.Data))
	return &File{st: st, spec: spec, name: name, rng: NewRng(Mix(spec.Plan.ChunkSeed, HashString(a))), zero: spec.Plan.ZeroReads}, nil
}

// OpenFile stands in for os.OpenFile (read-only use).
func OpenFile(name string, flag int, perm os.FileMode) (*File, error) {
	if cur == nil {
		f, err := os.OpenFile(name, flag, perm)
		if err != nil {
			return nil, err
		}
		return &File{real: f, name: name}, nil
	}
	if flag&(os.O_WRONLY|os.O_RDWR|os.O_CREATE|os.O_APPEND|os.O_TRUNC) != 0 {
		return nil, &fs.PathError{Op: "open", Path: name, Err: syscall.EROFS}
	}
	return Open(name)
}

// ReadFile stands in for os.ReadFile.
func ReadFile(name string) ([]byte, error) {
	if cur == nil {
		return os.ReadFile(name)
	}
	f, err := Open(name)
	if err != nil {
		return nil, err
	}
	defer f.Close()
	return io.ReadAll(f)
}

func faultError(kind, name string) error {
	switch kind {
	case "UNEXPECTED_EOF":
		return io.ErrUnexpectedEOF
	case "CUSTOM":
		return errors.New("verifsim: injected read failure")
	case "EISDIR":
		return &fs.PathError{Op: "read", Path: name, Err: syscall.EISDIR}
	}
	return &fs.PathError{Op: "read", Path: name, Err: syscall.EIO}
}

// Read delivers the file according to its plan.
func (f *File) Read(p []byte) (int, error) {
	if f.real != nil {
		return f.real.Read(p)
	}
	if f.sink {
		return 0, &fs.PathError{Op: "read", Path: f.name, Err: syscall.EBADF}
	}
	st := f.st
	simMu.Lock()
	defer simMu.Unlock()
	st.Stats.Reads++
	if f.done {
		return 0, &fs.PathError{Op: "read", Path: f.name, Err: fs.ErrClosed}
	}
	fire := func(n int, err error) (int, error) {
		if f.fail == nil {
			st.Stats.ReadFaultsFired++
			st.Stats.ReadFaultPaths = append(st.Stats.ReadFaultPaths, f.spec.Path)
		}
		f.fail = err
		st.event("read %s off=%d n=%d err=%v", f.spec.Path, f.off, n, err)
		return n, err
	}
	if f.fail != nil {
		return fire(0, f.fail)
	}
	if f.spec.Kind == "dir" {
		return fire(0, faultError("EISDIR", f.name))
	}
	if len(p) == 0 {
		return 0, nil
	}
	plan := f.spec.Plan
	data := f.spec.Data
	limit := len(data)
	if plan.FaultAt >= 0 && plan.FaultAt < limit {
		limit = plan.FaultAt
	}
	if plan.FaultAt >= 0 && f.off >= limit && plan.FaultAt <= len(data) {
		return fire(0, faultError(plan.FaultKind, f.name))
	}
	if f.off >= len(data) {
		st.event("read %s off=%d EOF", f.spec.Path, f.off)
		return 0, io.EOF
	}
	if f.zero > 0 {
		f.zero--
		st.event("read %s off=%d n=0", f.spec.Path, f.off)
		return 0, nil
	}
	if plan.DelayNano > 0 {
		st.now += plan.DelayNano
	}
	n := len(p)
	switch plan.Chunk {
	case "one":
		n = 1
	case "fixed":
		if plan.MaxChunk > 0 && plan.MaxChunk < n {
			n = plan.MaxChunk
		}
	case "seeded":
		mc := plan.MaxChunk
		if mc <= 0 {
			mc = 16
		}
		if c := 1 + f.rng.Intn(mc); c < n {
			n = c
		}
	}
	if f.off+n > limit {
		n = limit - f.off
	}
	copy(p, data[f.off:f.off+n])
	f.off += n
	if plan.FaultAt >= 0 && plan.FaultWithData && f.off == limit && plan.FaultAt <= len(data) {
		return fire(n, faultError(plan.FaultKind, f.name))
	}
	st.event("read %s off=%d n=%d", f.spec.Path, f.off-n, n)
	return n, nil
}

// Close closes the file.
func (f *File) Close() error {
	if f.real != nil {
		return f.real.Close()
	}
	if f.sink {
		return nil
	}
	if f.done {
		return &fs.PathError{Op: "close", Path: f.name, Err: fs.ErrClosed}
	}
	simMu.Lock()
	defer simMu.Unlock()
	f.done = true
	f.st.Stats.Closes++
	f.st.event("close %s", f.spec.Path)
	return nil
}

// Name returns the name the file was opened with.
func (f *File) Name() string { return f.name }

// Stat describes the open file.
func (f *File) Stat() (os.FileInfo, error) {
	if f.real != nil {
		return f.real.Stat()
	}
	if f.sink {
		return fileInfo{name: "stdout"}, nil
	}
	size := int64(len(f.spec.Data))
	if f.spec.StatSize != nil {
		size = *f.spec.StatSize
	}
	return fileInfo{name: path.Base(f.name), size: size, dir: f.spec.Kind == "dir"}, nil
}

// Seek supports rewinding a simulated file.
func (f *File) Seek(offset int64, whence int) (int64, error) {
	if f.real != nil {
		return f.real.Seek(offset, whence)
	}
	var base int64
	switch whence {
	case io.SeekCurrent:
		base = int64(f.off)
	case io.SeekEnd:
		base = int64(len(f.spec.Data))
	}
	n := base + offset
	if n < 0 {
		return 0, &fs.PathError{Op: "seek", Path: f.name, Err: syscall.EINVAL}
	}
	f.off = int(n)
	return n, nil
}

// Fd has no meaning for a simulated file.
func (f *File) Fd() uintptr {
	if f.real != nil {
		return f.real.Fd()
	}
	return ^uintptr(0)
}

// ---------------------------------------------------------------- sink

var stdoutFile = &File{sink: true, name: "/dev/stdout"}

// Stdout stands in for os.Stdout: a File in sink mode, so that code which
// declares the value as *os.File (rewritten to *verifsim.File) keeps compiling.
func Stdout() *File { return stdoutFile }

// Write writes to the simulated standard output (sink mode), or to the real file.
func (f *File) Write(p []byte) (int, error) {
	switch {
	case f.sink:
		st := cur
		if st == nil {
			return os.Stdout.Write(p)
		}
		return st.SinkWrite(p)
	case f.real != nil:
		return f.real.Write(p)
	}
	return 0, &fs.PathError{Op: "write", Path: f.name, Err: syscall.EBADF}
}

// WriteString is Write for strings.
func (f *File) WriteString(s string) (int, error) { return f.Write([]byte(s)) }

// Sync has nothing to do for a simulated file.
func (f *File) Sync() error {
	if f.real != nil {
		return f.real.Sync()
	}
	return nil
}

// SinkWrite is the simulated standard output.
func (st *State) SinkWrite(p []byte) (int, error) {
	simMu.Lock()
	defer simMu.Unlock()
	st.Stats.SinkWrites++
	plan := st.W.Sink
	sinkErr := func() error {
		e := syscall.ENOSPC
		switch plan.Kind {
		case "EPIPE":
			e = syscall.EPIPE
		case "EAGAIN":
			e = syscall.EAGAIN
		}
		return &fs.PathError{Op: "write", Path: "/dev/stdout", Err: e}
	}
	fail := func(n int) (int, error) {
		if !st.Stats.SinkFaultFired {
			st.Stats.SinkFirstFailInWrite = st.Stats.SinkWrites
		}
		st.Stats.SinkFaultFired = true
		// EAGAIN is transient (a terminal switched to non-blocking mode whose reader fell behind):
		// the write that crosses the offset fails once, later writes are accepted again
		st.sinkFailed = plan.Kind != "EAGAIN"
		st.sinkTransientDone = true
		err := sinkErr()
		st.event("write n=%d/%d err=%v", n, len(p), err)
		return n, err
	}
	if st.sinkFailed {
		return fail(0)
	}
	if plan.FailAt >= 0 && len(st.Out)+len(p) > plan.FailAt && !st.sinkTransientDone {
		n := 0
		if plan.Short {
			n = plan.FailAt - len(st.Out)
			st.Out = append(st.Out, p[:n]...)
		}
		return fail(n)
	}
	st.Out = append(st.Out, p...)
	st.event("write n=%d", len(p))
	return len(p), nil
}

// InstallLight installs only the map-order schedule, clock and disk of w; the
// process environment and time.Local are left alone. Library-level runners use
// it around direct calls of the public packages.
func InstallLight(w World) *State {
	st := &State{W: w, files: map[string]*FileSpec{}, now: w.ClockUnixNano, hash: sha256.New(), loc: time.UTC}
	for i := range w.Files {
		f := &st.W.Files[i]
		st.files[st.abs(f.Path)] = f
	}
	cur = st
	return st
}

// UninstallLight ends an InstallLight.
func (st *State) UninstallLight() {
	if cur == st {
		cur = nil
	}
}

// ---------------------------------------------------------------- goroutine schedule

var yieldHook func(site string)

// SetYieldHook installs the scheduler callback that the instrumented program
// calls before every channel send and at the start of every goroutine it
// starts. nil removes it.
func SetYieldHook(f func(site string)) {
	yieldHook = f
	gMu.Lock()
	gSeq, gKeys = 0, map[int64]int64{}
	gMu.Unlock()
}

// Goroutine identity for the scheduler. The parent draws a number when it executes a go statement
// (Spawn: exactly one goroutine of the code under test runs at a time, so the numbering is the same
// on every run) and the child adopts it first thing (Enter). The scheduler orders goroutines parked at
// the same site by that number, not by the order in which they happened to arrive.
var (
	gMu   sync.Mutex
	gSeq  int64
	gKeys = map[int64]int64{}
)

// Spawn is called by the parent just before a go statement.
func Spawn() int64 {
	if yieldHook == nil {
		return 0
	}
	gMu.Lock()
	defer gMu.Unlock()
	gSeq++
	return gSeq
}

// Enter is the first statement of every goroutine the code under test starts.
func Enter(id int64) {
	if yieldHook == nil || id == 0 {
		return
	}
	g := goid()
	gMu.Lock()
	gKeys[g] = id
	gMu.Unlock()
}

// GKey is the number of the calling goroutine (0: not started by the code under test).
func GKey() int64 {
	g := goid()
	gMu.Lock()
	defer gMu.Unlock()
	return gKeys[g]
}

// goid reads the runtime's goroutine id from the first line of the stack trace ("goroutine 123 [").
func goid() int64 {
	var buf [64]byte
	n := runtime.Stack(buf[:], false)
	var id int64
	for _, c := range buf[len("goroutine "):n] {
		if c < '0' || c > '9' {
			break
		}
		id = id*10 + int64(c-'0')
	}
	return id
}

// Yield is the schedule point the instrumenter inserts (rule R7). Without a
// hook it does nothing.
func Yield(site string) {
	if h := yieldHook; h != nil {
		h(site)
	}
}

// Gosched replaces runtime.Gosched (rule R10): under a scheduler a goroutine that
// spins politely ("for !ready { runtime.Gosched() }") parks like at any other
// schedule point, so that the scheduler - and not the spinning goroutine - decides
// who runs; without one it is runtime.Gosched.
func Gosched() {
	if h := yieldHook; h != nil {
		h("runtime.Gosched")
		return
	}
	runtime.Gosched()
}

// simCPUs is the processor count of the simulated machine (0: the host's).
var simCPUs int

// SetCPUs fixes what runtime.GOMAXPROCS(n) and runtime.NumCPU() report to the code under test (rule R12).
func SetCPUs(n int) { simCPUs = n }

// GOMAXPROCS stands in for runtime.GOMAXPROCS: on the simulated machine the setting cannot be changed.
func GOMAXPROCS(n int) int {
	if simCPUs > 0 {
		return simCPUs
	}
	return runtime.GOMAXPROCS(n)
}

// NumCPU stands in for runtime.NumCPU.
func NumCPU() int {
	if simCPUs > 0 {
		return simCPUs
	}
	return runtime.NumCPU()
}

// Mutex stands in for sync.Mutex (rule R11). Acquiring it is a schedule point, and a goroutine that has
// to wait blocks on a channel - the kind of blocking a synctest bubble recognises as durable - so the
// cooperative scheduler keeps control while another goroutine is parked inside the critical section.
// Waiters are served first come first served; which goroutine comes first is the scheduler's decision.
type Mutex struct {
	mu      sync.Mutex
	held    bool
	waiters []chan struct{}
}

func (m *Mutex) Lock() {
	Yield("sync.Mutex.Lock")
	m.mu.Lock()
	if !m.held {
		m.held = true
		m.mu.Unlock()
		return
	}
	ch := make(chan struct{})
	m.waiters = append(m.waiters, ch)
	m.mu.Unlock()
	<-ch
	Yield("sync.Mutex.Lock+")
}

func (m *Mutex) TryLock() bool {
	m.mu.Lock()
	defer m.mu.Unlock()
	if m.held {
		return false
	}
	m.held = true
	return true
}

func (m *Mutex) Unlock() {
	m.mu.Lock()
	if !m.held {
		m.mu.Unlock()
		panic("sync: unlock of unlocked mutex")
	}
	if len(m.waiters) > 0 {
		ch := m.waiters[0]
		m.waiters = m.waiters[1:]
		m.mu.Unlock()
		close(ch) // ownership is handed over
		return
	}
	m.held = false
	m.mu.Unlock()
}

// RWMutex stands in for sync.RWMutex (rule R11), like Mutex; a waiting writer blocks later readers.
type RWMutex struct {
	mu      sync.Mutex
	readers int
	writer  bool
	q       []rwWaiter
}

type rwWaiter struct {
	ch    chan struct{}
	write bool
}

func (m *RWMutex) Lock() {
	Yield("sync.RWMutex.Lock")
	m.mu.Lock()
	if !m.writer && m.readers == 0 && len(m.q) == 0 {
		m.writer = true
		m.mu.Unlock()
		return
	}
	ch := make(chan struct{})
	m.q = append(m.q, rwWaiter{ch, true})
	m.mu.Unlock()
	<-ch
	Yield("sync.RWMutex.Lock+")
}

func (m *RWMutex) Unlock() {
	m.mu.Lock()
	if !m.writer {
		m.mu.Unlock()
		panic("sync: Unlock of unlocked RWMutex")
	}
	m.writer = false
	m.wake()
	m.mu.Unlock()
}

func (m *RWMutex) RLock() {
	Yield("sync.RWMutex.RLock")
	m.mu.Lock()
	if !m.writer && len(m.q) == 0 {
		m.readers++
		m.mu.Unlock()
		return
	}
	ch := make(chan struct{})
	m.q = append(m.q, rwWaiter{ch, false})
	m.mu.Unlock()
	<-ch
	Yield("sync.RWMutex.RLock+")
}

func (m *RWMutex) RUnlock() {
	m.mu.Lock()
	if m.readers <= 0 {
		m.mu.Unlock()
		panic("sync: RUnlock of unlocked RWMutex")
	}
	m.readers--
	m.wake()
	m.mu.Unlock()
}

func (m *RWMutex) TryLock() bool {
	m.mu.Lock()
	defer m.mu.Unlock()
	if m.writer || m.readers > 0 {
		return false
	}
	m.writer = true
	return true
}

func (m *RWMutex) TryRLock() bool {
	m.mu.Lock()
	defer m.mu.Unlock()
	if m.writer || len(m.q) > 0 {
		return false
	}
	m.readers++
	return true
}

// RLocker returns a sync.Locker whose Lock and Unlock are RLock and RUnlock.
func (m *RWMutex) RLocker() sync.Locker { return (*rlocker)(m) }

type rlocker RWMutex

func (r *rlocker) Lock()   { (*RWMutex)(r).RLock() }
func (r *rlocker) Unlock() { (*RWMutex)(r).RUnlock() }

// wake admits the waiters at the head of the queue that can go now (called with m.mu held).
func (m *RWMutex) wake() {
	for len(m.q) > 0 {
		w := m.q[0]
		if w.write {
			if m.readers == 0 && !m.writer {
				m.writer = true
				m.q = m.q[1:]
				close(w.ch)
			}
			return
		}
		if m.writer {
			return
		}
		m.readers++
		m.q = m.q[1:]
		close(w.ch)
	}
}

var selectHook func(site string, n int) []int

// SetSelectHook installs the callback that orders the communication cases of the
// instrumented select statements (rule R8). nil removes it.
func SetSelectHook(f func(site string, n int) []int) { selectHook = f }

// SelectOrder returns the order in which the n cases of the select at site are
// polled before the select itself runs; nil (no scheduler) means "do not poll".
func SelectOrder(site string, n int) []int {
	if h := selectHook; h != nil {
		return h(site, n)
	}
	return nil
}

// Pick returns ord[i], or -1 when there is no such stage.
func Pick(ord []int, i int) int {
	if i < 0 || i >= len(ord) {
		return -1
	}
	return ord[i]
}
