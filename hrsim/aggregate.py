#!/usr/bin/env python3
"""Merge the JSON files left by the hrsim workers of one check into the evidence
file, print KNOWN-FINDING / VIOLATION lines, and return the check's exit status.

usage: aggregate.py PROP TIER SEED OUTDIR WALL_S VERIF_DIR INSTRUMENT_JSON [extra.json]
"""
import glob
import json
import os
import re
import sys


def main():
    prop, tier, seed, outdir, wall, verif, instr = sys.argv[1:8]
    extra = {}
    if len(sys.argv) > 8 and os.path.exists(sys.argv[8]):
        extra = json.load(open(sys.argv[8]))
    props = json.load(open(os.path.join(verif, "hrsim", "props.json")))
    meta = props[prop]
    known = []
    kf = os.path.join(verif, "KNOWN_FINDINGS.txt")
    if os.path.exists(kf):
        for line in open(kf):
            m = re.match(r'^open: property=(\S+) signature="([^"]*)" :: (.*)$', line.strip())
            if m:
                known.append({"property": m.group(1), "signature": m.group(2), "status": "open", "what": m.group(3)})
    workers = []
    for p in sorted(glob.glob(os.path.join(outdir, "w*.json"))):
        workers.append(json.load(open(p)))
    expected = int(os.environ.get("HRSIM_NWORKERS", "0"))
    if not workers or (expected and len(workers) != expected):
        print("hrsim: %d of %d workers left a result" % (len(workers), expected), file=sys.stderr)
        return 2
    faults = [w["harness_fault"] for w in workers if w.get("harness_fault")]
    if faults:
        print("hrsim: harness fault: %s" % faults[0], file=sys.stderr)
        return 2

    def union(key):
        s = set()
        for w in workers:
            s.update(w.get(key) or [])
        return s

    def summed(key):
        out = {}
        for w in workers:
            for k, v in (w.get(key) or {}).items():
                out[k] = out.get(k, 0) + v
        return dict(sorted(out.items()))

    evaluations = sum(w["evaluations"] for w in workers)
    cases = sum(w["cases"] for w in workers)
    nontrivial = union("nontrivial")
    traces = union("traces")
    perms = union("perms")
    planned, fired = summed("fault_planned"), summed("fault_fired")
    probes = summed("probes")
    counters = summed("counters")
    known_hits = summed("known")
    samples = []
    for w in workers:
        for s in w.get("samples") or []:
            if len(samples) < 3:
                samples.append(s)
    violations = [w["violation"] for w in workers if w.get("violation")]
    wall = float(wall)
    sim_min = min([w["sim_min"] for w in workers if w.get("sim_min")] or [0])
    sim_max = max([w["sim_max"] for w in workers if w.get("sim_max")] or [0])
    instr_counts = {}
    if os.path.exists(instr):
        ij = json.load(open(instr))
        instr_counts = {"counts": ij.get("counts"), "declined": ij.get("declined"),
                        "map_range_sites": [s["pos"] for s in ij.get("rewritten", []) if s["rule"] == "R1"]}
    stuck = [p for p in meta.get("expected_probes", []) if probes.get(p, 0) == 0]
    coverage = {
        "evaluations": evaluations,
        "distinct_nontrivial": len(nontrivial),
        "rule": meta["rule"],
        "samples": samples if samples else [{"note": "no sample small enough to print"}],
        "generated_cases": cases,
        "runs_per_hour": int(evaluations / wall * 3600) if wall > 0 else 0,
        "rapid_seeds": sum(w.get("rapid_seeds", 0) for w in workers),
        "workers": len(workers),
        "simulated_time_span": {"earliest_unix_nano": sim_min, "latest_unix_nano": sim_max, "zones": summed("zones")},
        "fault_kinds": {k: {"planned": planned.get(k, 0), "fired": fired.get(k, 0)} for k in sorted(set(planned) | set(fired))},
        "order_modes_with_effect": summed("order_modes"),
        "distinct_permutations": len(perms),
        "distinct_traces": len(traces),
        "probes": probes,
        "probes_stuck_at_zero": stuck,
        "counters": counters,
        "real_code": meta["real_code"],
        "stubs": meta["stubs"],
        "instrumented_sites": instr_counts,
        "known_findings_matched": known_hits,
        "wall_cap_hit": any(w.get("cap_hit") for w in workers),
    }
    if meta.get("exhaustive_note"):
        coverage["exhaustive_subspaces"] = meta["exhaustive_note"]
    coverage.update(extra)
    ev = {
        "property_id": prop,
        "tier": tier,
        "seed": int(seed),
        "level": meta["level"],
        "coverage": coverage,
        "assumptions": meta["assumptions"],
        "wall_s": round(wall, 2),
        "violations": len(violations),
    }
    os.makedirs(os.path.join(verif, "evidence"), exist_ok=True)
    with open(os.path.join(verif, "evidence", prop + ".json"), "w") as f:
        json.dump(ev, f, indent=1, ensure_ascii=False)
        f.write("\n")

    for k in known:
        if k["property"] == prop and k.get("status") == "open":
            n = known_hits.get(k["signature"], 0)
            print("KNOWN-FINDING: property=%s %s [%s; seen %d times in this run]" % (prop, k["what"], k["signature"], n))
    for p in stuck:
        print("hrsim: warning: probe %s stayed at zero" % p)
    print("hrsim: %s %s seed=%s workers=%d cases=%d runs=%d nontrivial=%d traces=%d perms=%d wall=%.1fs" % (
        prop, tier, seed, len(workers), cases, evaluations, len(nontrivial), len(traces), len(perms), wall))
    if violations:
        seen = set()
        for v in violations:
            if v["signature"] in seen:
                continue
            seen.add(v["signature"])
            print("hrsim: %s :: %s" % (v["signature"], v["message"]))
            # the VIOLATION line is printed by check, after the case has reproduced in a fresh process
            with open(os.path.join(outdir, "candidates.txt"), "a") as cf:
                cf.write(v.get("replay", "") + "\n")
        return 1
    if len(nontrivial) < 2:
        print("hrsim: fewer than 2 non-trivial cases were explored; the run proves nothing", file=sys.stderr)
        return 2
    return 0


if __name__ == "__main__":
    sys.exit(main())
