#!/bin/bash
# run_all.sh [quick|thorough] : every claimed check in turn; prints one summary line per check
TIER="${1:-quick}"
cd "$(dirname "$0")"
rc_all=0
for p in $(jq -r '.checks[].property_id' MANIFEST.json); do
  out=$(./check "$p" --tier "$TIER" 2>&1); rc=$?
  echo "$out" | grep -E '^(hrsim: C|VIOLATION|KNOWN-FINDING|hrsim: warning)' | cut -c1-300
  echo "== $p rc=$rc"
  [ $rc -ne 0 ] && rc_all=1
done
exit $rc_all
